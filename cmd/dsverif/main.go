package main

import (
	"encoding/json"
	"flag"
	"fmt"
	"os"
	"strconv"

	"verif/internal/fw"
	_ "verif/internal/props"
)

func envInt(name string, def int64) int64 {
	if v := os.Getenv(name); v != "" {
		if k, err := strconv.ParseInt(v, 10, 64); err == nil {
			return k
		}
	}
	return def
}

func main() {
	if len(os.Args) < 2 {
		fmt.Fprintln(os.Stderr, "usage: dsverif parent|worker|replay ...")
		os.Exit(2)
	}
	switch os.Args[1] {
	case "worker":
		fs := flag.NewFlagSet("worker", flag.ExitOnError)
		prop := fs.String("prop", "", "")
		tier := fs.String("tier", "quick", "")
		seed := fs.Int64("seed", 1, "")
		shard := fs.Int("shard", 0, "")
		nshards := fs.Int("nshards", 1, "")
		from := fs.Int("from", 0, "")
		only := fs.Int("only", -1, "")
		dir := fs.String("dir", ".", "")
		fs.Parse(os.Args[2:])
		os.Exit(fw.WorkerMain(*prop, *tier, *seed, *shard, *nshards, *from, *only, *dir))
	case "parent":
		fs := flag.NewFlagSet("parent", flag.ExitOnError)
		prop := fs.String("prop", "", "")
		tier := fs.String("tier", "quick", "")
		bin := fs.String("worker", "", "")
		fs.Parse(os.Args[2:])
		seed := envInt("VERIF_SEED", 1)
		os.Exit(fw.ParentMain(*prop, *tier, seed, *bin))
	case "replay":
		// replay a violation file: re-run exactly that case in this process and print what happens
		if len(os.Args) < 3 {
			os.Exit(2)
		}
		b, err := os.ReadFile(os.Args[2])
		if err != nil {
			fmt.Fprintln(os.Stderr, err)
			os.Exit(2)
		}
		var v fw.Violation
		if err := json.Unmarshal(b, &v); err != nil {
			fmt.Fprintln(os.Stderr, err)
			os.Exit(2)
		}
		fmt.Printf("replaying %s tier=%s seed=%d idx=%d key=%s\n", v.Property, v.Tier, v.Seed, v.Idx, v.Key)
		if v.Idx < 0 {
			fmt.Println("this violation was decided across cases in the parent; re-run the check with the same VERIF_SEED")
			os.Exit(0)
		}
		dir, _ := os.MkdirTemp("/verif/scratch", "replay-")
		defer os.RemoveAll(dir)
		fw.WorkerMain(v.Property, v.Tier, v.Seed, 0, 1, 0, v.Idx, dir)
		vb, _ := os.ReadFile(dir + "/viol-0.jsonl")
		if len(vb) > 0 {
			fmt.Printf("reproduced:\n%s", vb)
			os.Exit(1)
		}
		fmt.Println("not reproduced (no violation recorded for this case)")
		os.Exit(0)
	case "list":
		for id := range fw.Registry {
			fmt.Println(id)
		}
	default:
		fmt.Fprintln(os.Stderr, "unknown mode")
		os.Exit(2)
	}
}
