package ref

// Design-time prototype of the reference interpreter R (expression + statement core).
// AST, printer (precedence and whitespace slots taken from roll.peg) and evaluator.

import (
	"fmt"
	"math"
	"math/big"
	"sort"
	"strconv"
	"strings"
)

// ---------------------------------------------------------------- values

type Arr struct{ L []Val }
type Dict struct{ M map[string]Val }
type Fn struct {
	Name   string
	Params []string
	Body   []*Node
}
// Comp is a computed value (&name = expr): its expression is evaluated at every read, in a
// fresh scope whose parent is the scope that owns the variable.
type Comp struct{ Expr *Node }
type Null struct{}
type Val interface{} // int64, float64, string, Null, *Arr, *Dict, *Fn

type evalErr struct{ msg string }
type unspecified struct{ why string }
type retSignal struct{ v Val }
type breakSignal struct{}
type contSignal struct{}

func fail(f string, a ...any) { panic(evalErr{fmt.Sprintf(f, a...)}) }
func decline(why string)      { panic(unspecified{why}) }

// ---------------------------------------------------------------- AST

type Kind int

const (
	KInt Kind = iota
	KFloat
	KStr
	KNull
	KBool
	KVar
	KArr
	KRange
	KDict
	KIndex
	KSlice
	KAttr
	KUnary
	KBin
	KAnd
	KOr
	KTern
	KMulti
	KAssign
	KItemSet
	KAttrSet
	KCall
	KMethod
	KParen
	// statements
	KIf
	KWhile
	KBreak
	KContinue
	KFunc
	KReturn
	KTemplate
	KDice // XdY with optional keep/drop modifier and min/max clamp (deterministic modes only)
	KCompDef // &name = expr (statement position only)
)

type Node struct {
	K    Kind
	I    int64
	F    float64
	S    string // string value, identifier, operator, method/attr name
	Kids []*Node
	// KIf: Kids[0]=cond, Body=then, Else=else (nil = none)
	Body   []*Node
	Else   []*Node
	Params []string
	Quote  byte
	// KDice: I = times, Sides, S = "", "kh", "kl", "dh", "dl" with Cnt; Clamp = "", "min", "max" with ClampV
	Sides  int64
	Cnt    int64
	Clamp  string
	ClampV int64
}

// precedence levels (higher binds tighter)
const (
	LRoot = iota
	LSlice
	LTern
	LOr
	LAnd
	LBitOr
	LBitAnd
	LCmp
	LAdd
	LMul
	LNullC
	LExp
	LUnary
	LDice
	LPrim
)

var binLevel = map[string]int{
	"|": LBitOr, "&": LBitAnd,
	"<": LCmp, "<=": LCmp, "==": LCmp, "!=": LCmp, ">=": LCmp, ">": LCmp,
	"+": LAdd, "-": LAdd, "*": LMul, "/": LMul, "%": LMul, "??": LNullC, "**": LExp, "^": LExp,
}

func level(n *Node) int {
	switch n.K {
	case KAssign, KItemSet, KAttrSet, KCompDef:
		return LRoot
	case KSlice:
		return LSlice
	case KTern, KMulti:
		return LTern
	case KOr:
		return LOr
	case KAnd:
		return LAnd
	case KBin:
		return binLevel[n.S]
	case KUnary:
		return LUnary
	default:
		return LPrim
	}
}

// ---------------------------------------------------------------- printer

type printer struct {
	r     RNG
	noisy bool
}

func (p *printer) sp() string {
	if !p.noisy {
		return ""
	}
	return []string{"", " ", "  ", "\t", "\n", " \n "}[p.r.Intn(6)]
}
func (p *printer) spNoCR() string {
	if !p.noisy {
		return ""
	}
	return []string{"", " ", "  ", "\t"}[p.r.Intn(4)]
}

// at prints n so that it is a legal operand at level min
func (p *printer) at(n *Node, min int) string {
	s := p.expr(n)
	if level(n) < min {
		return "(" + p.sp() + s + ")" + p.sp()
	}
	return s
}

func quoteStr(s string, q byte) string {
	var sb strings.Builder
	sb.WriteByte(q)
	for _, c := range s {
		switch {
		case c == '\\':
			sb.WriteString(`\\`)
		case byte(c) == q && c < 128:
			sb.WriteByte('\\')
			sb.WriteRune(c)
		case c == '\n':
			sb.WriteString(`\n`)
		default:
			sb.WriteRune(c)
		}
	}
	sb.WriteByte(q)
	return sb.String()
}

// colonSafe makes sure that a following ':' cannot be lexed into a preceding identifier
// (identifiers may contain ':' and digits: "vi:2" is one name).
func colonSafe(s string) string {
	if s == "" {
		return s
	}
	rs := []rune(s)
	c := rs[len(rs)-1]
	if c == '_' || c == '$' || c == ':' || c > 0x7f || (c >= '0' && c <= '9') || (c >= 'a' && c <= 'z') || (c >= 'A' && c <= 'Z') {
		// a trailing digit is only dangerous when it belongs to an identifier, but a blank is
		// legal after identifiers only; numbers take no trailing blank. Decide by scanning back.
		i := len(rs) - 1
		for i >= 0 && (rs[i] == '_' || rs[i] == '$' || rs[i] == ':' || rs[i] > 0x7f || (rs[i] >= '0' && rs[i] <= '9') || (rs[i] >= 'a' && rs[i] <= 'z') || (rs[i] >= 'A' && rs[i] <= 'Z')) {
			i--
		}
		first := rs[i+1]
		if first >= '0' && first <= '9' {
			return s // a number
		}
		return s + " "
	}
	return s
}

func (p *printer) postfixBase(n *Node) string {
	// operand of an index / attr / call: must be a primary that the grammar lets carry a postfix chain
	switch n.K {
	case KVar, KParen:
		return p.expr(n)
	case KIndex, KAttr, KCall, KMethod:
		return p.expr(n)
	}
	return "(" + p.sp() + p.expr(n) + ")" + p.sp()
}

// item prints a list element (array item, dict value, call argument). A colon-less multi-clause
// conditional "c ? v, c ? v" is itself comma-separated: as a list element it would swallow a
// following element that begins like a further clause, so it is parenthesised there.
func (p *printer) item(n *Node) string {
	if n.K == KMulti {
		return "(" + p.sp() + p.expr(n) + ")" + p.sp()
	}
	return p.expr(n)
}

func (p *printer) expr(n *Node) string {
	switch n.K {
	case KInt:
		if n.I >= 0 && p.r != nil && p.r.Intn(12) == 0 {
			// decimal literals may be zero-padded
			return []string{"0", "00", "000"}[p.r.Intn(3)] + strconv.FormatInt(n.I, 10)
		}
		return strconv.FormatInt(n.I, 10)
	case KFloat:
		s := strconv.FormatFloat(n.F, 'f', -1, 64)
		if !strings.Contains(s, ".") {
			s += ".0"
		}
		return s
	case KStr:
		return quoteStr(n.S, n.Quote) + p.sp()
	case KNull:
		return "null" + p.sp()
	case KBool:
		if n.I != 0 {
			return "true" + p.sp()
		}
		return "false" + p.sp()
	case KVar:
		return n.S + p.spNoCR()
	case KParen:
		return "(" + p.sp() + p.expr(n.Kids[0]) + ")" + p.sp()
	case KDice:
		s := strconv.FormatInt(n.I, 10) + "d" + strconv.FormatInt(n.Sides, 10)
		if n.S != "" {
			s += n.S + strconv.FormatInt(n.Cnt, 10)
		}
		if n.Clamp != "" {
			s += n.Clamp + strconv.FormatInt(n.ClampV, 10)
		}
		return s
	case KArr:
		if len(n.Kids) == 0 {
			return "[" + p.sp() + "]" + p.sp()
		}
		parts := []string{}
		for _, k := range n.Kids {
			parts = append(parts, p.item(k))
		}
		out := "[" + p.sp()
		for i, s := range parts {
			if i > 0 {
				out += "," + p.sp()
			}
			out += s
		}
		return out + "]" + p.sp()
	case KRange:
		return "[" + p.sp() + p.expr(n.Kids[0]) + ".." + p.sp() + p.expr(n.Kids[1]) + "]" + p.sp()
	case KDict:
		if len(n.Kids) == 0 {
			return "{" + p.sp() + "}" + p.sp()
		}
		out := "{" + p.sp()
		for i := 0; i < len(n.Kids); i += 2 {
			if i > 0 {
				out += "," + p.sp()
			}
			key := p.expr(n.Kids[i])
			if n.Kids[i].K == KBool || n.Kids[i].K == KNull || n.Kids[i].K == KMulti {
				key = "(" + key + ")" + p.sp() // true/false/null in key position would be identifiers
			}
			out += colonSafe(key+p.sp()) + ":" + p.sp() + p.item(n.Kids[i+1]) + p.sp()
		}
		return out + "}" + p.sp()
	case KIndex:
		// grammar: items before attrs only; an index on an attr chain needs parentheses
		base := n.Kids[0]
		var b string
		if base.K == KAttr || base.K == KMethod {
			b = "(" + p.sp() + p.expr(base) + ")" + p.sp()
		} else {
			b = p.postfixBase(base)
		}
		return b + "[" + p.sp() + p.expr(n.Kids[1]) + p.sp() + "]" + p.sp()
	case KAttr:
		return p.postfixBase(n.Kids[0]) + "." + p.sp() + n.S + p.sp()
	case KMethod:
		out := p.postfixBase(n.Kids[0]) + "." + p.sp() + n.S + p.sp() + "(" + p.sp()
		for i, k := range n.Kids[1:] {
			if i > 0 {
				out += "," + p.sp()
			}
			out += p.item(k)
			if i == 0 {
				out += p.sp()
			}
		}
		return out + ")"
	case KCall:
		out := n.S + p.spNoCR() + "(" + p.sp()
		for i, k := range n.Kids {
			if i > 0 {
				out += "," + p.sp()
			}
			out += p.item(k)
			if i == 0 {
				out += p.sp()
			}
		}
		return out + ")"
	case KSlice:
		out := p.at(n.Kids[0], LTern) + "[" + p.sp()
		if n.Kids[1] != nil {
			out += p.expr(n.Kids[1])
		}
		out += ":" + p.sp()
		if n.Kids[2] != nil {
			out += p.expr(n.Kids[2])
		}
		return out + p.sp() + "]" + p.sp()
	case KUnary:
		return n.S + p.sp() + p.at(n.Kids[0], LDice)
	case KBin:
		lv := binLevel[n.S]
		var l, r string
		switch lv {
		case LMul:
			l = p.at(n.Kids[0], LMul)
			if level(n.Kids[0]) > LMul && level(n.Kids[0]) < LNullC {
				// cannot happen (no level between), kept for clarity
			}
			r = p.at(n.Kids[1], LExp)
		default:
			l = p.at(n.Kids[0], lv)
			r = p.at(n.Kids[1], lv+1)
		}
		return l + p.sp() + n.S + p.sp() + r
	case KAnd:
		return p.at(n.Kids[0], LAnd) + p.sp() + "&&" + p.sp() + p.at(n.Kids[1], LBitOr)
	case KOr:
		return p.at(n.Kids[0], LOr) + p.sp() + "||" + p.sp() + p.at(n.Kids[1], LAnd)
	case KTern:
		return p.at(n.Kids[0], LOr) + p.sp() + "?" + p.sp() + colonSafe(p.at(n.Kids[1], LOr)+p.sp()) + ":" + p.sp() + p.at(n.Kids[2], LOr) + p.sp()
	case KMulti:
		out := ""
		for i := 0; i < len(n.Kids); i += 2 {
			if i > 0 {
				out += "," + p.sp()
			}
			out += p.at(n.Kids[i], LOr) + p.sp() + "?" + p.sp() + p.at(n.Kids[i+1], LOr) + p.sp()
		}
		return out
	case KAssign:
		return n.S + p.sp() + "=" + p.sp() + p.expr(n.Kids[0])
	case KCompDef:
		return "&" + n.S + p.sp() + "=" + p.sp() + p.expr(n.Kids[0])
	case KItemSet:
		return p.at(n.Kids[0], LSlice) + "[" + p.sp() + p.expr(n.Kids[1]) + "]" + p.sp() + "=" + p.sp() + p.expr(n.Kids[2])
	case KAttrSet:
		return n.Kids[0].S + p.sp() + "." + p.sp() + n.S + p.sp() + "=" + p.sp() + p.expr(n.Kids[1])
	case KTemplate:
		out := "`"
		for _, k := range n.Kids {
			if k.K == KStr && k.Quote == 0 {
				for _, c := range k.S {
					switch c {
					case '\\':
						out += `\\`
					case '{', '}':
						out += `\` + string(c)
					case '`':
						out += "'" // not representable; replaced
					default:
						out += string(c)
					}
				}
			} else {
				out += "{" + p.sp() + p.expr(k) + p.sp() + "}"
			}
		}
		return out + "`" + p.sp()
	}
	panic(fmt.Sprintf("printer: kind %d", n.K))
}

func (p *printer) block(body []*Node) string {
	if len(body) == 0 {
		return "{" + p.sp() + "}" + p.sp()
	}
	return "{" + p.sp() + p.stmts(body) + p.sp() + "}" + p.sp()
}

func (p *printer) stmts(list []*Node) string {
	out := ""
	for i, s := range list {
		txt, isBlock := p.stmt(s)
		out += txt
		if i < len(list)-1 {
			if isBlock && p.r.Intn(2) == 0 && s.K != KReturn {
				out += p.sp()
			} else {
				seps := []string{";", "; ", ";\n", " ;\n"}
				if s.K == KReturn {
					// after a return statement the grammar takes ';' without leading blanks
					seps = seps[:3]
				}
				out += seps[p.r.Intn(len(seps))]
			}
		}
	}
	return out
}

func (p *printer) stmt(s *Node) (string, bool) {
	switch s.K {
	case KIf:
		out := "if " + p.sp() + p.expr(s.Kids[0]) + p.sp() + p.block(s.Body)
		if s.Else != nil {
			out += "else" + p.sp() + p.block(s.Else)
		}
		return out, true
	case KWhile:
		return "while " + p.sp() + p.expr(s.Kids[0]) + p.sp() + p.block(s.Body), true
	case KBreak:
		return "break" + p.sp(), false
	case KContinue:
		return "continue" + p.sp(), false
	case KReturn:
		if len(s.Kids) == 0 {
			return "return" + p.sp(), true
		}
		return "return " + p.sp() + p.expr(s.Kids[0]), true
	case KFunc:
		out := "func " + p.sp() + s.S + p.sp() + "(" + p.sp()
		for i, pn := range s.Params {
			if i > 0 {
				out += "," + p.sp()
			}
			out += pn + p.sp()
		}
		out += ")" + p.sp() + "{" + p.sp()
		if len(s.Body) > 0 {
			out += p.stmts(s.Body) + p.sp()
		}
		return out + "}" + p.sp(), true
	}
	return p.expr(s), false
}

// ---------------------------------------------------------------- evaluator

type frame struct {
	vars   map[string]Val
	caller *frame
	depth  int
}

type Interp struct {
	fuel     int
	top      *frame
	unspecRt bool // Ret of the program is unspecified (last statement left no value)
	// Mode: -1 = DiceMinMode, +1 = DiceMaxMode, 0 = random (only one-sided dice are judged)
	Mode int
	// IgnoreDiv0: division by zero yields the left operand ('%' still errors)
	IgnoreDiv0 bool
}

func truthy(v Val) bool {
	switch x := v.(type) {
	case int64:
		return x != 0
	case float64:
		return x != 0
	case string:
		return x != ""
	case Null:
		return false
	case *Arr:
		return len(x.L) != 0
	case *Dict:
		return len(x.M) != 0
	}
	return true
}

func typeName(v Val) string {
	switch v.(type) {
	case int64:
		return "int"
	case float64:
		return "float"
	case string:
		return "str"
	case Null:
		return "null"
	case *Arr:
		return "array"
	case *Dict:
		return "dict"
	case *Fn:
		return "function"
	}
	return "?"
}

func valEqual(a, b Val) bool { return valEqualD(a, b, 0) }

func valEqualD(a, b Val, depth int) bool {
	if depth > 40 {
		decline("deep or cyclic comparison")
	}
	switch x := a.(type) {
	case int64:
		switch y := b.(type) {
		case int64:
			return x == y
		case float64:
			return float64(x) == y
		}
		return false
	case float64:
		switch y := b.(type) {
		case int64:
			return x == float64(y)
		case float64:
			return x == y
		}
		return false
	case string:
		y, ok := b.(string)
		return ok && x == y
	case Null:
		_, ok := b.(Null)
		return ok
	case *Arr:
		y, ok := b.(*Arr)
		if !ok || len(x.L) != len(y.L) {
			return false
		}
		for i := range x.L {
			if !valEqualD(x.L[i], y.L[i], depth+1) {
				return false
			}
		}
		return true
	case *Dict:
		y, ok := b.(*Dict)
		if !ok || len(x.M) != len(y.M) {
			return false
		}
		for k, v := range x.M {
			w, ok := y.M[k]
			if !ok || !valEqualD(v, w, depth+1) {
				return false
			}
		}
		return true
	case *Fn:
		y, ok := b.(*Fn)
		return ok && x == y
	}
	return false
}

func toStr(v Val) string  { return toStrRaw(v, false) }
func toRepr(v Val) string { return toStrRaw(v, true) }
func toStrRaw(v Val, repr bool) string {
	// the string form of a value that contains the same container twice is not
	// specified (the VM abbreviates the repetition): decline
	seen := map[any]bool{}
	var walk func(v Val, depth int)
	walk = func(v Val, depth int) {
		if depth > 40 {
			decline("deep or cyclic string form")
		}
		switch x := v.(type) {
		case *Arr:
			if seen[x] {
				decline("shared container in a string form")
			}
			seen[x] = true
			for _, e := range x.L {
				walk(e, depth+1)
			}
		case *Dict:
			if seen[x] {
				decline("shared container in a string form")
			}
			seen[x] = true
			for _, e := range x.M {
				walk(e, depth+1)
			}
		}
	}
	walk(v, 0)
	return toStrD(v, repr, 0)
}

func toStrD(v Val, repr bool, depth int) string {
	if depth > 40 {
		decline("deep or cyclic string form")
	}
	switch x := v.(type) {
	case int64:
		return strconv.FormatInt(x, 10)
	case float64:
		return strconv.FormatFloat(x, 'f', -1, 64)
	case string:
		if repr {
			return "'" + x + "'"
		}
		return x
	case Null:
		return "null"
	case *Arr:
		parts := []string{}
		for _, e := range x.L {
			parts = append(parts, toStrD(e, true, depth+1))
		}
		return "[" + strings.Join(parts, ", ") + "]"
	case *Dict:
		keys := []string{}
		for k := range x.M {
			keys = append(keys, k)
		}
		sort.Strings(keys)
		parts := []string{}
		for _, k := range keys {
			parts = append(parts, "'"+k+"': "+toStrD(x.M[k], true, depth+1))
		}
		return "{" + strings.Join(parts, ", ") + "}"
	case *Fn:
		return "function " + x.Name
	}
	return "?"
}

func dictKey(v Val) string {
	switch v.(type) {
	case int64, float64, string:
		return toStr(v)
	}
	fail("dict key type %s", typeName(v))
	return ""
}

// lookupF is lookup that also reports the frame that supplied the value.
func (in *Interp) lookupF(name string) (Val, *frame) {
	for f := in.top; f != nil; f = f.caller {
		if v, ok := f.vars[name]; ok {
			if _, isNull := v.(Null); !isNull {
				if f != in.top && f.caller != nil {
					decline("name resolved in an intermediate caller")
				}
				return v, f
			}
		}
	}
	return Null{}, nil
}

// compute evaluates a computed value read from the scope owner.
func (in *Interp) compute(c *Comp, owner *frame) Val {
	if in.top.depth > 20 {
		decline("depth")
	}
	fr := &frame{vars: map[string]Val{}, caller: owner, depth: in.top.depth + 1}
	saved := in.top
	in.top = fr
	defer func() { in.top = saved }()
	in.tick()
	return in.eval(c.Expr)
}

func (in *Interp) lookup(name string) Val {
	for f := in.top; f != nil; f = f.caller {
		if v, ok := f.vars[name]; ok {
			if _, isNull := v.(Null); !isNull {
				// dynamic vs lexical: decline when a non-root, non-current frame supplies the value
				if f != in.top && f.caller != nil {
					decline("name resolved in an intermediate caller")
				}
				return v
			}
		}
	}
	return Null{}
}

func arith(op string, a, b Val, ignoreDiv0 bool) Val {
	ai, aInt := a.(int64)
	bi, bInt := b.(int64)
	af, aFl := a.(float64)
	bf, bFl := b.(float64)
	if aInt && bInt {
		switch op {
		case "+":
			return ai + bi
		case "-":
			return ai - bi
		case "*":
			return ai * bi
		case "/":
			if bi == 0 {
				if ignoreDiv0 {
					return a
				}
				fail("div0")
			}
			if ai == math.MinInt64 && bi == -1 {
				decline("MinInt/-1")
			}
			return ai / bi
		case "%":
			if bi == 0 {
				fail("mod0")
			}
			if ai == math.MinInt64 && bi == -1 {
				decline("MinInt%-1")
			}
			return ai % bi
		case "**", "^":
			if bi >= 2 && bi <= 64 && (ai > 1 || ai < -1) {
				// integer power: exact whenever the result is an integer of the language
				z := new(big.Int).Exp(big.NewInt(ai), big.NewInt(bi), nil)
				if z.IsInt64() {
					return z.Int64()
				}
				decline("pow beyond the integer range")
			}
			f := math.Pow(float64(ai), float64(bi))
			if math.IsNaN(f) || math.IsInf(f, 0) || math.Abs(f) >= 1<<53 {
				decline("pow out of exact range")
			}
			return int64(f)
		}
	}
	if (aInt || aFl) && (bInt || bFl) {
		if aInt {
			af = float64(ai)
		}
		if bInt {
			bf = float64(bi)
		}
		switch op {
		case "+":
			return af + bf
		case "-":
			return af - bf
		case "*":
			return af * bf
		case "/":
			if bf == 0 {
				if ignoreDiv0 {
					return a
				}
				fail("div0")
			}
			return af / bf
		case "**", "^":
			return math.Pow(af, bf)
		}
	}
	return nil
}

func (in *Interp) binop(op string, a, b Val) Val {
	switch op {
	case "+":
		if as, ok := a.(string); ok {
			if bs, ok := b.(string); ok {
				return as + bs
			}
		}
		if aa, ok := a.(*Arr); ok {
			if ba, ok := b.(*Arr); ok {
				if len(aa.L)+len(ba.L) > 512 {
					fail("too long")
				}
				n := &Arr{}
				n.L = append(append(n.L, aa.L...), ba.L...)
				return n
			}
		}
	case "*":
		var arr *Arr
		var times int64
		var ok bool
		if aa, isA := a.(*Arr); isA {
			arr = aa
			times, ok = b.(int64)
		} else if ba, isB := b.(*Arr); isB {
			arr = ba
			times, ok = a.(int64)
		}
		if arr != nil {
			if !ok {
				fail("array times non-int")
			}
			if times < 0 {
				decline("negative repeat")
			}
			if times > 0 && int64(len(arr.L)) > 512/times {
				fail("too long")
			}
			n := &Arr{}
			if len(arr.L) == 0 {
				return n
			}
			for i := int64(0); i < times; i++ {
				n.L = append(n.L, arr.L...)
			}
			return n
		}
	case "??":
		if _, isNull := a.(Null); isNull {
			return b
		}
		return a
	case "==":
		return b2i(valEqual(a, b))
	case "!=":
		return b2i(!valEqual(a, b))
	case "<", "<=", ">", ">=":
		af, ok1 := num(a)
		bf, ok2 := num(b)
		if !ok1 || !ok2 {
			fail("compare types")
		}
		ai, aInt := a.(int64)
		bi, bInt := b.(int64)
		if aInt && bInt {
			switch op {
			case "<":
				return b2i(ai < bi)
			case "<=":
				return b2i(ai <= bi)
			case ">":
				return b2i(ai > bi)
			default:
				return b2i(ai >= bi)
			}
		}
		switch op {
		case "<":
			return b2i(af < bf)
		case "<=":
			return b2i(af <= bf)
		case ">":
			return b2i(af > bf)
		default:
			return b2i(af >= bf)
		}
	case "&", "|":
		ai, ok1 := a.(int64)
		bi, ok2 := b.(int64)
		if !ok1 || !ok2 {
			fail("bitwise types")
		}
		if op == "&" {
			return ai & bi
		}
		return ai | bi
	}
	if v := arith(op, a, b, in.IgnoreDiv0); v != nil {
		return v
	}
	fail("operator %s on %s, %s", op, typeName(a), typeName(b))
	return nil
}

func b2i(b bool) Val {
	if b {
		return int64(1)
	}
	return int64(0)
}

func num(v Val) (float64, bool) {
	switch x := v.(type) {
	case int64:
		return float64(x), true
	case float64:
		return x, true
	}
	return 0, false
}

func realIndex(i, n int64) int64 {
	if i < 0 {
		i += n
	}
	if i < 0 || i >= n {
		fail("index out of range")
	}
	return i
}

func clampIndex(i, n int64) int64 {
	if i < 0 {
		i += n
	}
	if i < 0 {
		i = 0
	}
	if i > n {
		i = n
	}
	return i
}

func (in *Interp) tick() {
	in.fuel--
	if in.fuel < 0 {
		decline("fuel")
	}
}

func (in *Interp) eval(n *Node) Val {
	in.tick()
	switch n.K {
	case KInt:
		return n.I
	case KFloat:
		return n.F
	case KStr:
		return n.S
	case KNull:
		return Null{}
	case KBool:
		return n.I
	case KVar:
		v, owner := in.lookupF(n.S)
		if c, ok := v.(*Comp); ok {
			return in.compute(c, owner)
		}
		return v
	case KCompDef:
		c := &Comp{Expr: n.Kids[0]}
		in.top.vars[n.S] = c
		return c
	case KParen:
		return in.eval(n.Kids[0])
	case KDice:
		face := int64(1)
		switch {
		case in.Mode > 0:
			face = n.Sides
		case in.Mode == 0 && n.Sides != 1:
			decline("random dice")
		}
		if n.Clamp == "max" && face > n.ClampV {
			face = n.ClampV
		}
		if n.Clamp == "min" && face < n.ClampV {
			face = n.ClampV
		}
		kept := n.I
		switch n.S {
		case "kh", "kl":
			kept = n.Cnt
		case "dh", "dl":
			kept = n.I - n.Cnt
		}
		if kept > n.I {
			kept = n.I
		}
		if kept < 0 {
			kept = 0
		}
		return kept * face
	case KArr:
		a := &Arr{}
		for _, k := range n.Kids {
			a.L = append(a.L, in.eval(k))
		}
		return a
	case KRange:
		a, ok1 := in.eval(n.Kids[0]).(int64)
		b, ok2 := in.eval(n.Kids[1]).(int64)
		if !ok1 || !ok2 {
			fail("range types")
		}
		if (a < 0) != (b < 0) && (a < -(1<<40) || b < -(1<<40) || a > 1<<40 || b > 1<<40) {
			fail("range too long")
		}
		d := b - a
		if d < 0 {
			d = -d
		}
		if d < 0 || d > 511 {
			fail("range too long")
		}
		arr := &Arr{}
		step := int64(1)
		if b < a {
			step = -1
		}
		for i := a; ; i += step {
			arr.L = append(arr.L, i)
			if i == b {
				break
			}
		}
		return arr
	case KDict:
		d := &Dict{M: map[string]Val{}}
		var ks []Val
		for _, k := range n.Kids {
			ks = append(ks, in.eval(k))
		}
		for i := 0; i < len(ks); i += 2 {
			d.M[dictKey(ks[i])] = ks[i+1]
		}
		return d
	case KIndex:
		base := in.eval(n.Kids[0])
		idx := in.eval(n.Kids[1])
		switch b := base.(type) {
		case *Arr:
			i, ok := idx.(int64)
			if !ok {
				fail("index type")
			}
			return b.L[realIndex(i, int64(len(b.L)))]
		case *Dict:
			if v, ok := b.M[dictKey(idx)]; ok {
				return v
			}
			return Null{}
		case string:
			i, ok := idx.(int64)
			if !ok {
				fail("index type")
			}
			rs := []rune(b)
			ci := clampIndex(i, int64(len(rs)))
			if ci >= int64(len(rs)) {
				decline("string index at/after end")
			}
			return string(rs[ci : ci+1])
		}
		fail("not indexable: %s", typeName(base))
	case KSlice:
		base := in.eval(n.Kids[0])
		var lo, hi Val = Null{}, Null{}
		if n.Kids[1] != nil {
			lo = in.eval(n.Kids[1])
		}
		if n.Kids[2] != nil {
			hi = in.eval(n.Kids[2])
		}
		var length int64
		switch b := base.(type) {
		case *Arr:
			length = int64(len(b.L))
		case string:
			length = int64(len([]rune(b)))
		case *Dict:
			length = int64(len(b.M))
		default:
			fail("no length")
		}
		a := int64(0)
		if _, isNull := lo.(Null); !isNull {
			v, ok := lo.(int64)
			if !ok {
				fail("slice lo type")
			}
			a = v
		}
		bnd := length
		if _, isNull := hi.(Null); !isNull {
			v, ok := hi.(int64)
			if !ok {
				fail("slice hi type")
			}
			bnd = v
		}
		a, bnd = clampIndex(a, length), clampIndex(bnd, length)
		if a > bnd {
			a = bnd
		}
		switch b := base.(type) {
		case *Arr:
			return &Arr{L: append([]Val{}, b.L[a:bnd]...)}
		case string:
			return string([]rune(b)[a:bnd])
		}
		fail("not sliceable")
	case KAttr:
		base := in.eval(n.Kids[0])
		if d, ok := base.(*Dict); ok {
			if v, ok := d.M[n.S]; ok {
				return v
			}
			decline("missing attribute may hit a method name")
		}
		decline("attr on non-dict")
	case KUnary:
		v := in.eval(n.Kids[0])
		switch x := v.(type) {
		case int64:
			if n.S == "-" {
				return -x
			}
			return x
		case float64:
			if n.S == "-" {
				return -x
			}
			return x
		}
		fail("unary on %s", typeName(v))
	case KBin:
		a := in.eval(n.Kids[0])
		b := in.eval(n.Kids[1])
		return in.binop(n.S, a, b)
	case KAnd:
		a := in.eval(n.Kids[0])
		if !truthy(a) {
			if hasEffects(n.Kids[1]) {
				decline("&& rhs effects after falsy lhs")
			}
			in.eval(n.Kids[1]) // errors of the right operand still surface in the VM (it is evaluated)
			return a
		}
		return in.eval(n.Kids[1])
	case KOr:
		a := in.eval(n.Kids[0])
		if truthy(a) {
			return a
		}
		return in.eval(n.Kids[1])
	case KTern:
		if truthy(in.eval(n.Kids[0])) {
			return in.eval(n.Kids[1])
		}
		return in.eval(n.Kids[2])
	case KMulti:
		for i := 0; i < len(n.Kids); i += 2 {
			if truthy(in.eval(n.Kids[i])) {
				return in.eval(n.Kids[i+1])
			}
		}
		return ""
	case KAssign:
		v := in.eval(n.Kids[0])
		in.top.vars[n.S] = v
		return v
	case KCall:
		return in.call(n)
	case KMethod:
		return in.method(n)
	case KTemplate:
		out := ""
		for _, k := range n.Kids {
			if k.K == KStr && k.Quote == 0 {
				out += k.S
			} else {
				out += toStr(in.eval(k))
			}
		}
		return out
	}
	panic(fmt.Sprintf("eval: kind %d", n.K))
}

func hasEffects(n *Node) bool {
	if n == nil {
		return false
	}
	switch n.K {
	case KAssign, KItemSet, KAttrSet, KCall, KMethod:
		return true
	}
	for _, k := range n.Kids {
		if hasEffects(k) {
			return true
		}
	}
	return false
}

func (in *Interp) call(n *Node) Val {
	var args []Val
	fv := in.lookup(n.S)
	if f, ok := fv.(*Fn); ok {
		for _, k := range n.Kids {
			args = append(args, in.eval(k))
		}
		if len(args) != len(f.Params) {
			fail("arity")
		}
		if in.top.depth > 20 {
			decline("depth")
		}
		fr := &frame{vars: map[string]Val{}, caller: in.top, depth: in.top.depth + 1}
		for i, p := range f.Params {
			fr.vars[p] = args[i]
		}
		saved := in.top
		in.top = fr
		defer func() { in.top = saved }()
		return in.runBody(f.Body)
	}
	if _, isNull := fv.(Null); !isNull {
		for _, k := range n.Kids {
			in.eval(k)
		}
		fail("not callable")
	}
	for _, k := range n.Kids {
		args = append(args, in.eval(k))
	}
	need := map[string]int{"ceil": 1, "floor": 1, "round": 1, "abs": 1, "toInt": 1, "toFloat": 1, "toStr": 1, "toBool": 1, "repr": 1, "typeId": 1}
	want, known := need[n.S]
	if !known {
		fail("not callable")
	}
	if len(args) != want {
		fail("arity")
	}
	a := args[0]
	switch n.S {
	case "ceil", "floor", "round":
		if i, ok := a.(int64); ok {
			return i
		}
		f, ok := a.(float64)
		if !ok {
			fail("type")
		}
		var r float64
		switch n.S {
		case "ceil":
			r = math.Ceil(f)
		case "floor":
			r = math.Floor(f)
		default:
			r = math.Round(f)
		}
		if math.Abs(r) >= 1<<62 || math.IsNaN(r) {
			decline("float->int range")
		}
		return int64(r)
	case "abs":
		switch x := a.(type) {
		case int64:
			if x < 0 {
				return -x
			}
			return x
		case float64:
			return math.Abs(x)
		}
		fail("type")
	case "toInt":
		switch x := a.(type) {
		case int64:
			return x
		case float64:
			if math.Abs(x) >= 1<<62 || math.IsNaN(x) {
				decline("float->int range")
			}
			return int64(x)
		case string:
			v, err := strconv.ParseInt(x, 10, 64)
			if err != nil {
				fail("toInt")
			}
			return v
		}
		fail("type")
	case "toFloat":
		switch x := a.(type) {
		case int64:
			return float64(x)
		case float64:
			return x
		case string:
			v, err := strconv.ParseFloat(x, 64)
			if err != nil {
				fail("toFloat")
			}
			return v
		}
		fail("type")
	case "toStr":
		return toStr(a)
	case "repr":
		return toRepr(a)
	case "toBool":
		return b2i(truthy(a))
	case "typeId":
		switch a.(type) {
		case int64:
			return int64(0)
		case float64:
			return int64(1)
		case string:
			return int64(2)
		case Null:
			return int64(4)
		case *Arr:
			return int64(6)
		case *Dict:
			return int64(7)
		case *Fn:
			return int64(8)
		}
	}
	return Null{}
}

func (in *Interp) method(n *Node) Val {
	base := in.eval(n.Kids[0])
	var args []Val
	for _, k := range n.Kids[1:] {
		args = append(args, in.eval(k))
	}
	arr, isArr := base.(*Arr)
	d, isDict := base.(*Dict)
	switch {
	case isArr:
		switch n.S {
		case "len":
			if len(args) != 0 {
				fail("arity")
			}
			return int64(len(arr.L))
		case "sum", "kh", "kl":
			k := int64(1)
			if n.S == "sum" {
				if len(args) != 0 {
					fail("arity")
				}
			} else {
				if len(args) > 1 {
					fail("arity")
				}
				if len(args) == 1 {
					v, ok := args[0].(int64)
					if !ok {
						fail("kh arg type")
					}
					k = v
				}
			}
			var nums []float64
			allInt := true
			var isum int64
			for _, e := range arr.L {
				switch x := e.(type) {
				case int64:
					isum += x
					nums = append(nums, float64(x))
				case float64:
					nums = append(nums, x)
					allInt = false
				}
			}
			if n.S == "kh" {
				sort.Sort(sort.Reverse(sort.Float64Slice(nums)))
			} else if n.S == "kl" {
				sort.Float64s(nums)
			}
			var s float64
			for i, v := range nums {
				if n.S != "sum" && int64(i) >= k {
					break
				}
				s += v
			}
			if allInt && n.S == "sum" {
				return isum // integers are added as integers (wrap-around like '+')
			}
			if allInt {
				return int64(s)
			}
			return s
		case "push":
			if len(args) != 1 {
				fail("arity")
			}
			arr.L = append(arr.L, args[0])
			return arr
		case "pop":
			if len(args) != 0 {
				fail("arity")
			}
			if len(arr.L) == 0 {
				return Null{}
			}
			v := arr.L[len(arr.L)-1]
			arr.L = arr.L[:len(arr.L)-1]
			return v
		case "shift":
			if len(args) != 0 {
				fail("arity")
			}
			if len(arr.L) == 0 {
				return Null{}
			}
			v := arr.L[0]
			arr.L = arr.L[1:]
			return v
		}
	case isDict:
		switch n.S {
		case "len":
			if _, shadow := d.M["len"]; shadow {
				decline("key shadows method")
			}
			if len(args) != 0 {
				fail("arity")
			}
			return int64(len(d.M))
		}
	}
	decline("method " + n.S + " on " + typeName(base))
	return nil
}

// runBody executes a statement list in the current frame and yields the body's value.
func (in *Interp) runBody(body []*Node) (ret Val) {
	defer func() {
		if r := recover(); r != nil {
			if rs, ok := r.(retSignal); ok {
				ret = rs.v
				return
			}
			panic(r)
		}
	}()
	return in.execList(body, true)
}

// execList returns the value of the last value-producing statement executed directly in this list
func (in *Interp) execList(list []*Node, topLevel bool) Val {
	var last Val = Null{}
	unspec := false
	for _, s := range list {
		in.tick()
		switch s.K {
		case KIf:
			if truthy(in.eval(s.Kids[0])) {
				in.execList(s.Body, false)
			} else if s.Else != nil {
				in.execList(s.Else, false)
			}
			last, unspec = Null{}, false
		case KWhile:
			in.execWhile(s)
			last, unspec = Null{}, false
		case KBreak:
			panic(breakSignal{})
		case KContinue:
			panic(contSignal{})
		case KReturn:
			var v Val = Null{}
			if len(s.Kids) > 0 {
				v = in.eval(s.Kids[0])
			}
			panic(retSignal{v})
		case KFunc:
			f := &Fn{Name: s.S, Params: s.Params, Body: s.Body}
			in.top.vars[s.S] = f
			last, unspec = f, false
		case KItemSet:
			base := in.eval(s.Kids[0])
			idx := in.eval(s.Kids[1])
			v := in.eval(s.Kids[2])
			switch b := base.(type) {
			case *Arr:
				i, ok := idx.(int64)
				if !ok {
					fail("index type")
				}
				b.L[realIndex(i, int64(len(b.L)))] = v
			case *Dict:
				b.M[dictKey(idx)] = v
			default:
				fail("item set on %s", typeName(base))
			}
			last, unspec = v, false // a set-assignment yields the assigned value, like a plain assignment
		case KAttrSet:
			v := in.eval(s.Kids[1])
			base := in.lookup(s.Kids[0].S)
			d, ok := base.(*Dict)
			if !ok {
				fail("attr set on %s", typeName(base))
			}
			d.M[s.S] = v
			last, unspec = v, false
		default:
			last, unspec = in.eval(s), false
		}
	}
	if topLevel {
		in.unspecRt = unspec
	}
	return last
}

func (in *Interp) execWhile(s *Node) {
	for {
		in.tick()
		if !truthy(in.eval(s.Kids[0])) {
			return
		}
		brk := false
		func() {
			defer func() {
				if r := recover(); r != nil {
					switch r.(type) {
					case breakSignal:
						brk = true
					case contSignal:
					default:
						panic(r)
					}
				}
			}()
			in.execList(s.Body, false)
		}()
		if brk {
			return
		}
	}
}

// RNG is the source of random choices for the printer and the generator.
type RNG interface{ Intn(n int) int }
