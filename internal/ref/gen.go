package ref

import (
	"fmt"
	"math"
	"sort"
	"strconv"
	"strings"

	ds "github.com/sealdice/dicescript"
)

// ---------------------------------------------------------------- generator

type gen struct {
	r      RNG
	inLoop bool
	funcs  map[string]int // name -> arity
	depthF int
	dice   int // 0 = no dice, 1 = one-sided dice only, 2 = any dice (min/max mode)
	comps  []string // computed values defined so far (top level)
	inComp bool     // generating the expression of a computed value
}

func (g *gen) diceNode() *Node {
	n := &Node{K: KDice, I: int64(1 + g.r.Intn(5)), Sides: 1}
	if g.dice == 2 {
		n.Sides = []int64{1, 2, 6, 20, 100}[g.r.Intn(5)]
	}
	switch g.r.Intn(6) {
	case 0:
		n.S, n.Cnt = "kh", int64(1+g.r.Intn(int(n.I)+1))
	case 1:
		n.S, n.Cnt = "kl", int64(1+g.r.Intn(int(n.I)+1))
	case 2:
		n.S, n.Cnt = "dh", int64(1+g.r.Intn(int(n.I)+1))
	case 3:
		n.S, n.Cnt = "dl", int64(1+g.r.Intn(int(n.I)+1))
	}
	switch g.r.Intn(6) {
	case 0:
		n.Clamp, n.ClampV = "min", int64(g.r.Intn(8))
	case 1:
		n.Clamp, n.ClampV = "max", int64(g.r.Intn(8))
	}
	return n
}

var intVars = []string{"vi", "wi", "xi"}
var allVars = []string{"vi", "wi", "xi", "vf", "vs", "va", "vd", "vn", "zz"}

func I(v int64) *Node  { return &Node{K: KInt, I: v} }
func V(s string) *Node { return &Node{K: KVar, S: s} }
func S(s string, r RNG) *Node {
	return &Node{K: KStr, S: s, Quote: []byte{'\'', '"'}[r.Intn(2)]}
}

func (g *gen) pick(xs ...string) string { return xs[g.r.Intn(len(xs))] }

func (g *gen) smallInt() *Node {
	switch g.r.Intn(10) {
	case 0:
		return I(0)
	case 1:
		return I(1)
	case 2:
		return I(int64(g.r.Intn(1000)))
	case 3:
		return I([]int64{2147483647, 4294967296, 9223372036854775807, 512, 513, 4611686018427387905, 4611686018427387904, 2305843009213693953, 6148914691236517206, 1152921504606846977}[g.r.Intn(10)])
	default:
		return I(int64(g.r.Intn(12)))
	}
}

func (g *gen) num(d int) *Node { // int or float expression
	if g.dice > 0 && g.r.Intn(9) == 0 {
		return g.diceNode()
	}
	if d <= 0 || g.r.Intn(4) == 0 {
		switch g.r.Intn(6) {
		case 0:
			return &Node{K: KFloat, F: []float64{0.5, 2.5, 1.25, 3.0, 0.1, 100.75}[g.r.Intn(6)]}
		case 1:
			return V(g.pick("vi", "wi", "vf"))
		case 2:
			return &Node{K: KBool, I: int64(g.r.Intn(2))}
		default:
			return g.smallInt()
		}
	}
	switch g.r.Intn(12) {
	case 0, 1, 2, 3:
		if g.r.Intn(12) == 0 {
			// integer powers between 2^53 and 2^63, where a float64 no longer holds every integer
			base := int64(2 + g.r.Intn(14))
			lo := int(math.Ceil(53 / math.Log2(float64(base))))
			hi := int(math.Floor(62.9 / math.Log2(float64(base))))
			if hi < lo {
				hi = lo
			}
			e := int64(lo + g.r.Intn(hi-lo+1))
			var b *Node = I(base)
			if g.r.Intn(3) == 0 {
				b = &Node{K: KUnary, S: "-", Kids: []*Node{I(base)}}
			}
			return &Node{K: KBin, S: g.pick("**", "^"), Kids: []*Node{b, I(e)}}
		}
		return &Node{K: KBin, S: g.pick("+", "-", "*", "/", "%", "**", "^"), Kids: []*Node{g.num(d - 1), g.num(d - 1)}}
	case 4:
		return &Node{K: KUnary, S: g.pick("-", "+"), Kids: []*Node{g.num(d - 1)}}
	case 5:
		if g.r.Intn(5) == 0 {
			// neighbours where a float64 cannot tell two integers apart (and where int/float mix)
			base := []int64{9007199254740992, 9007199254740993, 4611686018427387904, 9223372036854775806, 9007199254740991, 36028797018963968}[g.r.Intn(6)]
			delta := []int64{-1, 0, 1, 1, -1, 2}[g.r.Intn(6)]
			var other *Node = I(base + delta)
			if g.r.Intn(6) == 0 {
				other = &Node{K: KFloat, F: float64(base)}
			}
			kids := []*Node{I(base), other}
			if g.r.Intn(2) == 0 {
				kids[0], kids[1] = kids[1], kids[0]
			}
			return &Node{K: KBin, S: g.pick("<", "<=", "==", "!=", ">=", ">"), Kids: kids}
		}
		return &Node{K: KBin, S: g.pick("<", "<=", "==", "!=", ">=", ">"), Kids: []*Node{g.num(d - 1), g.num(d - 1)}}
	case 6:
		return &Node{K: KBin, S: g.pick("&", "|"), Kids: []*Node{g.num(d - 1), g.num(d - 1)}}
	case 7:
		return &Node{K: KTern, Kids: []*Node{g.any(d - 1), g.num(d - 1), g.num(d - 1)}}
	case 8:
		return &Node{K: KCall, S: g.pick("ceil", "floor", "round", "abs", "toInt", "toFloat", "toBool", "typeId"), Kids: []*Node{g.num(d - 1)}}
	case 9:
		if g.r.Intn(8) == 0 {
			// a sum of integers is an integer sum: elements beyond 2^53 keep their low bits
			a := &Node{K: KArr}
			for i := 2 + g.r.Intn(3); i > 0; i-- {
				base := []int64{9007199254740993, 4611686018427387905, 36028797018963969, 3, 1, 9007199254740995, 1152921504606846977}[g.r.Intn(7)]
				a.Kids = append(a.Kids, I(base))
			}
			return &Node{K: KMethod, S: "sum", Kids: []*Node{a}}
		}
		return &Node{K: KMethod, S: g.pick("sum", "kh", "kl", "len"), Kids: []*Node{g.arr(d - 1)}}
	case 10:
		return &Node{K: KIndex, Kids: []*Node{g.arr(d - 1), g.num(0)}}
	default:
		return &Node{K: KBin, S: "??", Kids: []*Node{g.any(d - 1), g.num(d - 1)}}
	}
}

func (g *gen) str(d int) *Node {
	if d <= 0 || g.r.Intn(3) == 0 {
		if g.r.Intn(3) == 0 {
			return V("vs")
		}
		return S(g.pick("", "a", "xy", "héllo", "中文", "it's", "q\"q", "a\\b", "{x}", "1", "12.5", "-3"), g.r)
	}
	switch g.r.Intn(6) {
	case 0:
		return &Node{K: KBin, S: "+", Kids: []*Node{g.str(d - 1), g.str(d - 1)}}
	case 1:
		return &Node{K: KCall, S: g.pick("toStr", "repr"), Kids: []*Node{g.any(d - 1)}}
	case 2:
		return &Node{K: KSlice, Kids: []*Node{g.str(d - 1), g.optIdx(), g.optIdx()}}
	case 3:
		return &Node{K: KTemplate, Kids: []*Node{{K: KStr, S: g.pick("a", "x{y", "", "é ")}, g.any(d - 1), {K: KStr, S: g.pick("", "b", " z")}}}
	case 4:
		return &Node{K: KOr, Kids: []*Node{g.str(d - 1), g.str(d - 1)}}
	default:
		return &Node{K: KIndex, Kids: []*Node{V("vs"), g.num(0)}}
	}
}

func (g *gen) optIdx() *Node {
	switch g.r.Intn(4) {
	case 0:
		return nil
	case 1:
		return &Node{K: KUnary, S: "-", Kids: []*Node{I(int64(g.r.Intn(5)))}}
	default:
		return I(int64(g.r.Intn(6)))
	}
}

func (g *gen) arr(d int) *Node {
	if d <= 0 || g.r.Intn(3) == 0 {
		if g.r.Intn(3) == 0 {
			return V("va")
		}
		n := g.r.Intn(4)
		if g.r.Intn(6) == 0 {
			n = []int{4, 8, 16}[g.r.Intn(3)]
		}
		a := &Node{K: KArr}
		for i := 0; i < n; i++ {
			a.Kids = append(a.Kids, g.any(0))
		}
		return a
	}
	switch g.r.Intn(7) {
	case 0:
		n := g.r.Intn(4)
		a := &Node{K: KArr}
		for i := 0; i < n; i++ {
			a.Kids = append(a.Kids, g.any(d-1))
		}
		return a
	case 1:
		return &Node{K: KRange, Kids: []*Node{g.num(0), g.num(0)}}
	case 2:
		return &Node{K: KBin, S: "+", Kids: []*Node{g.arr(d - 1), g.arr(d - 1)}}
	case 3:
		return &Node{K: KBin, S: "*", Kids: []*Node{g.arr(d - 1), g.smallInt()}}
	case 4:
		return &Node{K: KSlice, Kids: []*Node{g.arr(d - 1), g.optIdx(), g.optIdx()}}
	case 5:
		return &Node{K: KMethod, S: "push", Kids: []*Node{g.arr(d - 1), g.any(d - 1)}}
	default:
		return &Node{K: KAnd, Kids: []*Node{g.any(d - 1), g.arr(d - 1)}}
	}
}

func (g *gen) dict(d int) *Node {
	if g.r.Intn(3) == 0 {
		return V("vd")
	}
	n := g.r.Intn(3)
	x := &Node{K: KDict}
	for i := 0; i < n; i++ {
		var k *Node
		switch g.r.Intn(3) {
		case 0:
			k = S(g.pick("k", "j", "kk", "1"), g.r)
		case 1:
			k = I(int64(g.r.Intn(3)))
		default:
			k = g.any(0)
		}
		x.Kids = append(x.Kids, k, g.any(d-1))
	}
	return x
}

func (g *gen) any(d int) *Node {
	switch g.r.Intn(12) {
	case 0, 1, 2, 3:
		return g.num(d)
	case 4, 5:
		return g.str(d)
	case 6, 7:
		return g.arr(d)
	case 8:
		return g.dict(d)
	case 9:
		return &Node{K: KNull}
	case 10:
		if g.inComp {
			// free variables of a computed value: globals, and names that functions bind locally
			return V(g.pick("vi", "wi", "xi", "vs", "va", "pa", "pb", "t1", "t2", "vi", "pa"))
		}
		if len(g.comps) > 0 && g.r.Intn(3) == 0 {
			return V(g.comps[g.r.Intn(len(g.comps))])
		}
		return V(allVars[g.r.Intn(len(allVars))])
	default:
		if d > 0 {
			switch g.r.Intn(8) {
			case 6:
				// any operator on any pair of operand kinds (mostly ill-typed: the error-ness is judged)
				return &Node{K: KBin, S: g.pick("+", "-", "*", "/", "%", "**", "<", "<=", ">", ">=", "&", "|", "??"), Kids: []*Node{g.any(d - 1), g.any(d - 1)}}
			case 7:
				return &Node{K: KUnary, S: g.pick("-", "+"), Kids: []*Node{g.any(d - 1)}}
			case 0:
				return &Node{K: KOr, Kids: []*Node{g.any(d - 1), g.any(d - 1)}}
			case 1:
				return &Node{K: KAnd, Kids: []*Node{g.any(d - 1), g.any(d - 1)}}
			case 2:
				return &Node{K: KMulti, Kids: []*Node{g.any(d - 1), g.any(d - 1), g.any(d - 1), g.any(d - 1)}}
			case 3:
				return &Node{K: KBin, S: g.pick("==", "!="), Kids: []*Node{g.any(d - 1), g.any(d - 1)}}
			case 4:
				return &Node{K: KIndex, Kids: []*Node{g.dict(d - 1), S(g.pick("k", "j", "zz"), g.r)}}
			default:
				if len(g.funcs) > 0 {
					names := []string{}
					for n := range g.funcs {
						names = append(names, n)
					}
					sort.Strings(names)
					name := names[g.r.Intn(len(names))]
					c := &Node{K: KCall, S: name}
					ar := g.funcs[name]
					if g.r.Intn(8) == 0 {
						ar += 1
					}
					for i := 0; i < ar; i++ {
						c.Kids = append(c.Kids, g.any(d-1))
					}
					return c
				}
			}
		}
		return g.num(d)
	}
}

func (g *gen) stmt(d int) *Node {
	if g.inLoop && g.r.Intn(5) == 0 {
		// break/continue the way they are really used: inside (possibly nested) if-blocks
		inner := &Node{K: KIf, Kids: []*Node{g.any(1)}, Body: []*Node{{K: g.pickK(KBreak, KContinue)}}}
		if g.r.Intn(2) == 0 {
			inner = &Node{K: KIf, Kids: []*Node{g.any(1)}, Body: []*Node{g.any(0), inner}}
		}
		return inner
	}
	if d > 0 && !g.inLoop && g.r.Intn(40) == 0 {
		// a longer loop (up to 30 iterations) whose body leaves nested blocks by continue/break
		cnt := g.pick("c1", "c2")
		lim := int64(21 + g.r.Intn(10))
		k := g.pickK(KBreak, KContinue)
		lvl2 := &Node{K: KIf, Kids: []*Node{{K: KBin, S: ">", Kids: []*Node{V(cnt), I(int64(g.r.Intn(3)))}}}, Body: []*Node{{K: k}}}
		lvl1 := &Node{K: KIf, Kids: []*Node{{K: KBin, S: "<", Kids: []*Node{V(cnt), I(lim - 1 - int64(g.r.Intn(3)))}}}, Body: []*Node{lvl2}}
		if k == KBreak {
			// break only near the end so that most iterations take the inner continue path of a sibling
			lvl2.Body = []*Node{{K: KContinue}}
			lvl1.Else = []*Node{{K: KBreak}}
		}
		body := []*Node{{K: KAssign, S: cnt, Kids: []*Node{{K: KBin, S: "+", Kids: []*Node{V(cnt), I(1)}}}}, lvl1, {K: KAssign, S: "t1", Kids: []*Node{V(cnt)}}}
		return &Node{K: KWhile, Kids: []*Node{{K: KBin, S: "<", Kids: []*Node{V(cnt), I(lim)}}}, Body: body}
	}
	if d > 0 && g.depthF == 0 && !g.inLoop && !g.inComp && g.r.Intn(14) == 0 {
		// a computed value at top level; functions defined later may read it while holding
		// locals of the same names as its free variables
		name := g.pick("z1", "z2")
		g.inComp = true
		savedFuncs := g.funcs
		g.funcs = map[string]int{}
		e := g.any(1)
		g.funcs = savedFuncs
		g.inComp = false
		known := false
		for _, c := range g.comps {
			known = known || c == name
		}
		if !known {
			g.comps = append(g.comps, name)
		}
		return &Node{K: KCompDef, S: name, Kids: []*Node{e}}
	}
	switch g.r.Intn(14) {
	case 0, 1, 2, 3:
		return &Node{K: KAssign, S: g.pick("vi", "wi", "xi", "t1", "t2", "va", "vs"), Kids: []*Node{g.any(d)}}
	case 4:
		s := &Node{K: KIf, Kids: []*Node{g.any(d)}, Body: g.stmts(d-1, 2)}
		if g.r.Intn(2) == 0 {
			s.Else = g.stmts(d-1, 2)
		}
		return s
	case 5:
		if d > 0 && !g.inLoop {
			cnt := g.pick("c1", "c2")
			g.inLoop = true
			body := []*Node{{K: KAssign, S: cnt, Kids: []*Node{{K: KBin, S: "+", Kids: []*Node{V(cnt), I(1)}}}}}
			body = append(body, g.stmts(d-1, 3)...)
			if g.r.Intn(4) == 0 {
				body = append(body, &Node{K: g.pickK(KBreak, KContinue)})
				body = append(body, g.stmts(d-1, 1)...)
			}
			g.inLoop = false
			return &Node{K: KWhile, Kids: []*Node{{K: KBin, S: "<", Kids: []*Node{V(cnt), I(int64(1 + g.r.Intn(4)))}}}, Body: body}
		}
	case 6:
		return &Node{K: KItemSet, Kids: []*Node{V(g.pick("va", "vd")), g.any(0), g.any(d)}}
	case 7:
		return &Node{K: KAttrSet, S: g.pick("k", "nw"), Kids: []*Node{V("vd"), g.any(d)}}
	case 8:
		if g.depthF == 0 && d > 0 {
			name := g.pick("fa", "fb")
			ar := g.r.Intn(3)
			params := []string{"pa", "pb"}[:ar]
			g.depthF++
			wasLoop := g.inLoop
			g.inLoop = false
			body := g.stmts(d-1, 3)
			if g.r.Intn(2) == 0 {
				body = append(body, &Node{K: KReturn, Kids: []*Node{g.any(d - 1)}})
			}
			g.inLoop = wasLoop
			g.depthF--
			g.funcs[name] = ar
			return &Node{K: KFunc, S: name, Params: params, Body: body}
		}
	case 9:
		if g.depthF > 0 && g.r.Intn(2) == 0 {
			return &Node{K: KReturn, Kids: []*Node{g.any(d)}}
		}
	}
	return g.any(d)
}

func (g *gen) pickK(ks ...Kind) Kind { return ks[g.r.Intn(len(ks))] }

// aliasScenario is a multi-step sequence over containers held in variables: build, derive a
// second value (concatenation, repetition, slice, plain assignment), mutate one of them, read
// them all. Copy-versus-reference mistakes (a derived value sharing storage with its source)
// only show in such sequences.
func (g *gen) aliasScenario() []*Node {
	lit := func(n int) *Node {
		a := &Node{K: KArr}
		for i := 0; i < n; i++ {
			a.Kids = append(a.Kids, I(int64(g.r.Intn(9))))
		}
		return a
	}
	asg := func(name string, e *Node) *Node { return &Node{K: KAssign, S: name, Kids: []*Node{e}} }
	meth := func(name string, base *Node, args ...*Node) *Node {
		return &Node{K: KMethod, S: name, Kids: append([]*Node{base}, args...)}
	}
	var out []*Node
	out = append(out, asg("va", lit(g.r.Intn(12))))
	for k := g.r.Intn(3); k > 0; k-- {
		switch g.r.Intn(3) {
		case 0:
			out = append(out, meth("pop", V("va")))
		case 1:
			out = append(out, meth("push", V("va"), I(int64(g.r.Intn(9)))))
		default:
			out = append(out, meth("shift", V("va")))
		}
	}
	derive := func(dst string) *Node {
		switch g.r.Intn(6) {
		case 0, 1:
			return asg(dst, &Node{K: KBin, S: "+", Kids: []*Node{V("va"), lit(g.r.Intn(3))}})
		case 2:
			return asg(dst, &Node{K: KBin, S: "*", Kids: []*Node{V("va"), I(int64(1 + g.r.Intn(2)))}})
		case 3:
			return asg(dst, &Node{K: KSlice, Kids: []*Node{V("va"), g.optIdx(), g.optIdx()}})
		case 4:
			return asg(dst, &Node{K: KBin, S: "+", Kids: []*Node{lit(g.r.Intn(3)), V("va")}})
		default:
			return asg(dst, V("va"))
		}
	}
	out = append(out, derive("t1"))
	for k := 1 + g.r.Intn(2); k > 0; k-- {
		switch g.r.Intn(6) {
		case 0:
			out = append(out, derive("t2"))
		case 1:
			out = append(out, meth("push", V(g.pick("va", "t1")), I(int64(10+g.r.Intn(9)))))
		case 2:
			out = append(out, &Node{K: KItemSet, Kids: []*Node{V(g.pick("va", "t1", "t2")), I(int64(g.r.Intn(3))), I(int64(20 + g.r.Intn(9)))}})
		case 3:
			out = append(out, meth("pop", V(g.pick("va", "t1"))))
		case 4:
			out = append(out, asg("t2", &Node{K: KBin, S: "+", Kids: []*Node{V("t1"), lit(1 + g.r.Intn(2))}}))
		default:
			out = append(out, asg("va", &Node{K: KBin, S: "+", Kids: []*Node{V("va"), lit(1)}}))
		}
	}
	out = append(out, &Node{K: KArr, Kids: []*Node{V("va"), V("t1"), V("t2")}})
	if g.r.Intn(3) == 0 {
		// equality over operands that contain one container several times: every pair of
		// positions is compared on its own
		cp := func(n *Node, bump int) *Node {
			c := &Node{K: KArr}
			for i, k := range n.Kids {
				v := k.I
				if i == len(n.Kids)-1 {
					v += int64(bump)
				}
				c.Kids = append(c.Kids, I(v))
			}
			if len(n.Kids) == 0 && bump != 0 {
				c.Kids = append(c.Kids, I(int64(bump)))
			}
			return c
		}
		base := lit(1 + g.r.Intn(3))
		out = append(out, asg("t1", base))
		left := &Node{K: KArr, Kids: []*Node{V("t1"), V("t1")}}
		right := &Node{K: KArr, Kids: []*Node{cp(base, 0), cp(base, g.r.Intn(2))}}
		if g.r.Intn(2) == 0 {
			left, right = right, left
		}
		if g.r.Intn(3) == 0 {
			left = &Node{K: KDict, Kids: []*Node{S("a", g.r), V("t1"), S("b", g.r), V("t1")}}
			right = &Node{K: KDict, Kids: []*Node{S("a", g.r), cp(base, 0), S("b", g.r), cp(base, g.r.Intn(2))}}
		}
		out = append(out, &Node{K: KArr, Kids: []*Node{{K: KBin, S: "==", Kids: []*Node{left, right}}, {K: KBin, S: "!=", Kids: []*Node{left, right}}}})
	}
	return out
}

// scopeScenario: a computed value whose free variables are also bound locally by the functions
// that read it (parameter or local assignment of the same name), read at top level, through the
// functions and through another computed value.
func (g *gen) scopeScenario() []*Node {
	asg := func(name string, e *Node) *Node { return &Node{K: KAssign, S: name, Kids: []*Node{e}} }
	free := g.pick("vi", "pa", "t1", "wi")
	var out []*Node
	if free != "pa" || g.r.Intn(2) == 0 {
		out = append(out, asg(free, I(int64(1+g.r.Intn(9)))))
	}
	expr := &Node{K: KBin, S: g.pick("+", "*", "-"), Kids: []*Node{V(free), I(int64(1 + g.r.Intn(5)))}}
	if g.r.Intn(3) == 0 {
		expr = &Node{K: KArr, Kids: []*Node{V(free), V("wi")}}
	}
	out = append(out, &Node{K: KCompDef, S: "z1", Kids: []*Node{expr}})
	known := false
	for _, c := range g.comps {
		known = known || c == "z1"
	}
	if !known {
		g.comps = append(g.comps, "z1")
	}
	// fa binds the name as a parameter, fb by a local assignment
	fa := &Node{K: KFunc, S: "fa", Params: []string{free}, Body: []*Node{V("z1")}}
	if free == "vi" || free == "wi" || free == "t1" {
		fa.Params = []string{"pa"}
		fa.Body = []*Node{asg(free, V("pa")), V("z1")}
	}
	fb := &Node{K: KFunc, S: "fb", Params: nil, Body: []*Node{asg(free, I(int64(100 + g.r.Intn(9)))), &Node{K: KBin, S: "+", Kids: []*Node{V("z1"), I(0)}}}}
	if expr.K == KArr {
		fb.Body[1] = V("z1")
	}
	g.funcs["fa"], g.funcs["fb"] = 1, 0
	out = append(out, fa, fb)
	if g.r.Intn(2) == 0 {
		out = append(out, &Node{K: KCompDef, S: "z2", Kids: []*Node{V("z1")}})
	}
	reads := []*Node{{K: KCall, S: "fa", Kids: []*Node{I(int64(10 + g.r.Intn(9)))}}, V("z1"), {K: KCall, S: "fb"}}
	if len(out) > 0 && out[len(out)-1].K == KCompDef && out[len(out)-1].S == "z2" {
		reads = append(reads, V("z2"))
	}
	out = append(out, &Node{K: KArr, Kids: reads})
	return out
}

func (g *gen) stmts(d, max int) []*Node {
	n := 1 + g.r.Intn(max)
	var out []*Node
	for i := 0; i < n; i++ {
		if d > 0 && !g.inLoop && g.depthF == 0 && !g.inComp && g.r.Intn(25) == 0 {
			out = append(out, g.scopeScenario()...)
			continue
		}
		if d > 0 && !g.inLoop && g.depthF == 0 && g.r.Intn(12) == 0 {
			out = append(out, g.aliasScenario()...)
			continue
		}
		out = append(out, g.stmt(d))
	}
	return out
}

// ---------------------------------------------------------------- canonical forms

// canonical forms with memoisation per container (shared sub-structure is rendered once,
// cycles are cut), so that wide DAGs and cyclic values cost linear time

type canonCtx struct {
	memo map[any]string
	on   map[any]bool
}

func newCanonCtx() *canonCtx { return &canonCtx{memo: map[any]string{}, on: map[any]bool{}} }

func canonR(v Val) string { return newCanonCtx().r(v) }

func (c *canonCtx) r(v Val) string {
	switch x := v.(type) {
	case int64:
		return "i" + strconv.FormatInt(x, 10)
	case float64:
		if math.IsNaN(x) {
			return "fNaN"
		}
		return "f" + strconv.FormatUint(math.Float64bits(x), 16)
	case string:
		return "s" + strconv.Quote(x)
	case Null:
		return "n"
	case *Arr:
		if s, ok := c.memo[x]; ok {
			return s
		}
		if c.on[x] {
			return "<cycle>"
		}
		c.on[x] = true
		parts := []string{}
		for _, e := range x.L {
			parts = append(parts, c.r(e))
		}
		delete(c.on, x)
		s := "[" + strings.Join(parts, ",") + "]"
		c.memo[x] = s
		return s
	case *Dict:
		if s, ok := c.memo[x]; ok {
			return s
		}
		if c.on[x] {
			return "<cycle>"
		}
		c.on[x] = true
		keys := []string{}
		for k := range x.M {
			keys = append(keys, k)
		}
		sort.Strings(keys)
		parts := []string{}
		for _, k := range keys {
			parts = append(parts, strconv.Quote(k)+":"+c.r(x.M[k]))
		}
		delete(c.on, x)
		s := "{" + strings.Join(parts, ",") + "}"
		c.memo[x] = s
		return s
	case *Fn:
		return "fn:" + x.Name
	case *Comp:
		return "t5"
	}
	return "?"
}

func canonV(v *ds.VMValue, depth int) string { return newCanonCtx().v(v) }

func (c *canonCtx) v(v *ds.VMValue) string {
	if v == nil {
		return "NIL"
	}
	switch v.TypeId {
	case ds.VMTypeInt:
		i, _ := v.ReadInt()
		return "i" + strconv.FormatInt(int64(i), 10)
	case ds.VMTypeFloat:
		f, _ := v.ReadFloat()
		if math.IsNaN(f) {
			return "fNaN"
		}
		return "f" + strconv.FormatUint(math.Float64bits(f), 16)
	case ds.VMTypeString:
		s, _ := v.ReadString()
		return "s" + strconv.Quote(s)
	case ds.VMTypeNull:
		return "n"
	case ds.VMTypeArray:
		a, _ := v.ReadArray()
		if s, ok := c.memo[a]; ok {
			return s
		}
		if c.on[a] {
			return "<cycle>"
		}
		c.on[a] = true
		parts := []string{}
		for _, e := range a.List {
			parts = append(parts, c.v(e))
		}
		delete(c.on, a)
		s := "[" + strings.Join(parts, ",") + "]"
		c.memo[a] = s
		return s
	case ds.VMTypeDict:
		dd, _ := v.ReadDictData()
		if s, ok := c.memo[dd]; ok {
			return s
		}
		if c.on[dd] {
			return "<cycle>"
		}
		c.on[dd] = true
		ents := map[string]*ds.VMValue{}
		dd.Dict.Range(func(k string, e *ds.VMValue) bool { ents[k] = e; return true })
		keys := []string{}
		for k := range ents {
			keys = append(keys, k)
		}
		sort.Strings(keys)
		parts := []string{}
		for _, k := range keys {
			parts = append(parts, strconv.Quote(k)+":"+c.v(ents[k])) // rendered in key order, not map order
		}
		delete(c.on, dd)
		s := "{" + strings.Join(parts, ",") + "}"
		c.memo[dd] = s
		return s
	case ds.VMTypeFunction:
		fd, _ := v.ReadFunctionData()
		return "fn:" + fd.Name
	}
	return fmt.Sprintf("t%d", v.TypeId)
}
