package ref

import (
	"fmt"
	ds "github.com/sealdice/dicescript"
	"sort"
	"strings"
)

// Setup is the program every judged VM runs first; RunRef starts from the same state.
const Setup = "vi = 7; wi = 3; xi = 0; vf = 2.5; vs = 'héllo'; va = [3, 1, 2]; vd = {'k': 1, 'j': 'x'}; c1 = 0; c2 = 0"

// Outcome of a reference or VM evaluation in canonical form.
type Outcome struct {
	Kind string // value | error | unspecified | panic | rest
	Ret  string
	Vars map[string]string
	Why  string
	RetU bool // Ret is unspecified (last statement left no value)
}

// Gen is the exported generator handle.
type Gen struct{ g *gen }

func NewGen(r RNG) *Gen { return &Gen{g: &gen{r: r, funcs: map[string]int{}}} }

// WithDice makes the generator emit dice terms: 1 = one-sided dice only (random mode),
// 2 = any XdY with keep/drop/min/max modifiers (for min/max mode).
func (g *Gen) WithDice(level int) *Gen { g.g.dice = level; return g }

// Expr generates one expression of depth d.
func (g *Gen) Expr(d int) []*Node { return []*Node{g.g.any(d)} }

// Stmts generates 1..max statements of depth d.
func (g *Gen) Stmts(d, max int) []*Node { return g.g.stmts(d, max) }

// Print renders a program; noisy selects random legal whitespace.
func Print(r RNG, noisy bool, prog []*Node) string {
	p := &printer{r: r, noisy: noisy}
	return p.stmts(prog)
}

// NewEnv returns the reference state after Setup.
func NewEnv() *Interp {
	in := &Interp{fuel: 20000}
	in.top = &frame{vars: map[string]Val{}}
	in.top.vars["vi"], in.top.vars["wi"], in.top.vars["xi"] = int64(7), int64(3), int64(0)
	in.top.vars["vf"], in.top.vars["vs"] = 2.5, "héllo"
	in.top.vars["va"] = &Arr{L: []Val{int64(3), int64(1), int64(2)}}
	in.top.vars["vd"] = &Dict{M: map[string]Val{"k": int64(1), "j": "x"}}
	in.top.vars["c1"], in.top.vars["c2"] = int64(0), int64(0)
	return in
}

// Run evaluates prog in the interpreter state (state persists across calls, as on one VM).
func (in *Interp) Run(prog []*Node) (o Outcome) {
	in.fuel = 20000
	in.unspecRt = false
	defer func() {
		if r := recover(); r != nil {
			switch x := r.(type) {
			case evalErr:
				o.Kind, o.Why = "error", x.msg
			case unspecified:
				o.Kind, o.Why = "unspecified", x.why
				return
			case breakSignal, contSignal:
				o.Kind, o.Why = "error", "break/continue outside loop"
			default:
				panic(r)
			}
		}
		o.Vars = map[string]string{}
		for k, v := range in.top.vars {
			if _, isNull := v.(Null); !isNull {
				o.Vars[k] = canonR(v)
			}
		}
	}()
	// make sure the top frame is the root (a previous error may have unwound mid-call)
	for in.top.caller != nil {
		in.top = in.top.caller
	}
	v := in.runBody(prog)
	o.Kind = "value"
	o.Ret = canonR(v)
	o.RetU = in.unspecRt
	return
}

func SortedVars(m map[string]string) []string {
	var out []string
	for k, v := range m {
		out = append(out, k+"="+v)
	}
	sort.Strings(out)
	return out
}

func VarsEqual(a, b map[string]string) bool {
	return fmt.Sprint(SortedVars(a)) == fmt.Sprint(SortedVars(b))
}

var _ = strings.TrimSpace

// CanonV renders a VM value in the same canonical form as the reference values.
func CanonV(v *ds.VMValue) string { return canonV(v, 0) }
