// Package mon holds monitors and offline checkers that are independent of the workload.
package mon

import (
	"fmt"

	ds "github.com/sealdice/dicescript"
)

// BCIssue is one structural defect of a compiled program.
type BCIssue struct {
	Class string // stable class used as known-finding key
	Msg   string
	PC    int
	Op    string
	Path  string // "" for the main program, "func:name" / "computed:expr" for nested bodies
}

var operandKind = map[string]string{
	"push.int": "int", "push.flt": "float", "push.str": "string", "push.arr": "int", "push.dict": "int", "invoke": "int", "ld.fs": "int", "popn": "int",
	"jmp": "int", "jne": "int", "ld": "string", "ld.d": "string", "ld.raw": "string", "store": "string", "attr.get": "string", "attr.set": "string",
	"mark.detail": "span", "st.mod": "stinfo", "push.func": "value", "push.computed": "value",
}

type bcState struct {
	h      int
	blocks []int
	fblk   []int
	dice   int
	detail bool
	wod    bool
	dc     bool
	popped bool
}

func (s bcState) clone() bcState {
	n := s
	n.blocks = append([]int(nil), s.blocks...)
	n.fblk = append([]int(nil), s.fblk...)
	return n
}

// VerifyProgram walks code (and, recursively, precompiled nested bodies) as a control-flow
// graph with an abstract interpretation of stack height (minimum over paths), open
// blocks, template blocks and dice/annotation state, and reports every violation of the
// well-formedness invariants of property C08 on any path.
func VerifyProgram(code []ds.VerifOp) []BCIssue {
	var out []BCIssue
	verifyRec(code, "", 0, &out)
	return out
}

func verifyRec(code []ds.VerifOp, path string, depth int, out *[]BCIssue) {
	*out = append(*out, verifyOne(code, path)...)
	if depth > 16 {
		return
	}
	for _, op := range code {
		if op.Body != nil {
			p := path
			if op.Name == "push.func" {
				p += "/func:" + op.Str
			} else {
				p += "/computed"
			}
			verifyRec(op.Body, p, depth+1, out)
		}
	}
}

func verifyOne(code []ds.VerifOp, path string) []BCIssue {
	var errs []BCIssue
	n := len(code)
	st := make([]*bcState, n+1)
	work := []int{0}
	st[0] = &bcState{}
	seen := map[string]bool{}
	report := func(pc int, class, msg string) {
		k := fmt.Sprintf("%d|%s", pc, class)
		if seen[k] {
			return
		}
		seen[k] = true
		op := ""
		if pc >= 0 && pc < n {
			op = code[pc].Name
		}
		errs = append(errs, BCIssue{Class: class, Msg: msg, PC: pc, Op: op, Path: path})
	}
	merge := func(pc int, s bcState, from int) {
		if pc < 0 || pc > n {
			report(from, "jump-out-of-range", fmt.Sprintf("jump target %d outside [0,%d]", pc, n))
			return
		}
		if st[pc] == nil {
			c := s.clone()
			st[pc] = &c
			work = append(work, pc)
			return
		}
		o := st[pc]
		changed := false
		if len(o.blocks) != len(s.blocks) {
			report(pc, "block-depth-mismatch", fmt.Sprintf("reached from %d with %d open blocks, earlier with %d", from, len(s.blocks), len(o.blocks)))
			return
		}
		if len(o.fblk) != len(s.fblk) {
			report(pc, "template-depth-mismatch", fmt.Sprintf("reached from %d with %d open template blocks, earlier with %d", from, len(s.fblk), len(o.fblk)))
			return
		}
		if o.dice != s.dice {
			report(pc, "dice-depth-mismatch", fmt.Sprintf("reached from %d with dice-state depth %d, earlier with %d", from, s.dice, o.dice))
			return
		}
		if s.h < o.h {
			o.h = s.h
			changed = true
		}
		for i := range o.blocks {
			if s.blocks[i] < o.blocks[i] {
				o.blocks[i] = s.blocks[i]
				changed = true
			}
		}
		for i := range o.fblk {
			if s.fblk[i] < o.fblk[i] {
				o.fblk[i] = s.fblk[i]
				changed = true
			}
		}
		if o.detail && !s.detail {
			o.detail = false
			changed = true
		}
		if o.wod && !s.wod {
			o.wod = false
			changed = true
		}
		if o.dc && !s.dc {
			o.dc = false
			changed = true
		}
		if o.popped && !s.popped {
			o.popped = false
			changed = true
		}
		if changed {
			work = append(work, pc)
		}
	}
	steps := 0
	for len(work) > 0 {
		pc := work[len(work)-1]
		work = work[:len(work)-1]
		if pc >= n {
			continue
		}
		steps++
		if steps > 200*(n+1) {
			report(pc, "verifier-fuel", "fixpoint did not converge")
			break
		}
		s := st[pc].clone()
		c := code[pc]
		pop := func(k int) {
			if k < 0 {
				report(pc, "negative-operand", fmt.Sprintf("operand %d", k))
				k = 0
			}
			if s.h < k {
				report(pc, "stack-underflow", fmt.Sprintf("pops %d with minimal stack height %d on some path", k, s.h))
				s.h = 0
			} else {
				s.h -= k
			}
			if k > 0 {
				s.popped = true
			}
		}
		push := func(k int) { s.h += k }
		needDetail := func() {
			if !s.detail {
				report(pc, "no-detail-mark", "uses the annotation record but no mark.detail precedes on some path")
			}
		}
		needDice := func() {
			if s.dice < 1 {
				report(pc, "no-dice-init", "uses roll state but no dice.init precedes on some path")
			}
		}
		needInt := func() (int, bool) {
			if !c.HasInt {
				report(pc, "operand-not-int", "operand is not an integer")
				return 0, false
			}
			return int(c.Int), true
		}
		// operand kinds: the dispatch loop type-asserts operands without checking
		if want, ok := operandKind[c.Name]; ok && c.Kind != want {
			report(pc, "operand-kind", fmt.Sprintf("operand of %s is %s, the VM asserts %s", c.Name, c.Kind, want))
		}
		next := true
		switch c.Name {
		case "push.int", "push.flt", "push.str", "push.null", "push.this", "push.computed", "push.func", "ld", "ld.raw":
			push(1)
		case "ld.d":
			needDetail()
			push(1)
		case "push.arr":
			if k, ok := needInt(); ok {
				pop(k)
			}
			push(1)
		case "push.dict":
			if k, ok := needInt(); ok {
				pop(2 * k)
			}
			push(1)
		case "push.range":
			pop(2)
			push(1)
		case "push.last":
			if !s.popped {
				report(pc, "push-last-without-pop", "push.last without a preceding pop on some path")
			}
			push(1)
		case "push.def_expr":
			needDetail()
			needDice()
			push(1)
		case "ld.fs":
			if k, ok := needInt(); ok {
				pop(k)
			}
			push(1)
		case "store":
			if s.h < 1 {
				report(pc, "stack-underflow", "store reads the top of an empty stack on some path")
			}
		case "store.local", "store.global", "push.global":
			// the dispatch loop has no case for these; they have no stack effect
		case "invoke":
			if k, ok := needInt(); ok {
				pop(k + 1)
			}
			push(1)
		case "item.get":
			pop(2)
			push(1)
		case "item.set":
			pop(3)
			push(1)
		case "attr.set":
			pop(2)
			push(1)
		case "attr.get":
			pop(1)
			push(1)
		case "slice.get":
			pop(4)
			push(1)
		case "slice.set":
			pop(5)
			push(1)
		case "add", "sub", "mul", "div", "mod", "pow", "nullCoalescing", "comp.lt", "comp.le", "comp.eq", "comp.ne", "comp.ge", "comp.gt", "&", "|", "and":
			pop(2)
			push(1)
		case "neg", "pos":
			pop(1)
			push(1)
		case "dice.init":
			s.dice++
		case "dice.setTimes", "dice.setKeepLow", "dice.setKeepHigh", "dice.setDropLow", "dice.setDropHigh", "dice.setMin", "dice.setMax":
			needDice()
			pop(1)
		case "mark.detail":
			s.detail = true
		case "dice":
			needDice()
			needDetail()
			pop(1)
			push(1)
			if s.dice > 0 {
				s.dice--
			}
		case "dice.custom":
			push(1)
		case "dice.fate":
			needDetail()
			push(1)
		case "coc.bonus", "coc.penalty":
			needDetail()
			pop(1)
			push(1)
		case "wod.init":
			s.wod = true
		case "wod.pool", "wod.points", "wod.threshold", "wod.thresholdQ":
			if !s.wod {
				report(pc, "no-wod-init", "WoD parameter set without wod.init on some path")
			}
			pop(1)
		case "dice.wod":
			if !s.wod {
				report(pc, "no-wod-init", "dice.wod without wod.init on some path")
			}
			needDetail()
			pop(1)
			push(1)
		case "dc.setInit":
			s.dc = true
		case "dc.setPool", "dc.setPoints":
			if !s.dc {
				report(pc, "no-dc-init", "Double Cross parameter set without dc.setInit on some path")
			}
			pop(1)
		case "dice.dc":
			if !s.dc {
				report(pc, "no-dc-init", "dice.dc without dc.setInit on some path")
			}
			needDetail()
			pop(1)
			push(1)
		case "block.push":
			s.blocks = append(s.blocks, s.h)
		case "block.pop":
			if len(s.blocks) == 0 {
				report(pc, "block-pop-at-zero", "block.pop with no open block on some path")
			} else {
				s.h = s.blocks[len(s.blocks)-1] + 1
				s.blocks = s.blocks[:len(s.blocks)-1]
			}
		case "fstr.block.push":
			s.fblk = append(s.fblk, s.h)
		case "fstr.block.pop":
			if len(s.fblk) == 0 {
				report(pc, "template-pop-at-zero", "fstr.block.pop with no open template block on some path")
			} else {
				s.h = s.fblk[len(s.fblk)-1] + 1
				s.fblk = s.fblk[:len(s.fblk)-1]
			}
		case "st.set", "st.mod", "st.x0":
			pop(2)
		case "st.x1":
			pop(3)
		case "pop":
			pop(1)
		case "popn":
			if k, ok := needInt(); ok {
				pop(k)
			}
		case "nop":
		case "halt", "ret":
			if c.Name == "halt" && (len(s.blocks) > 0 || len(s.fblk) > 0) {
				// the program ends inside a construct that was opened and never closed: the
				// compiler abandoned it half-way (its forward jump is still the unpatched 0)
				report(pc, "open-construct-at-halt", fmt.Sprintf("halt reached with %d open block(s) and %d open template block(s) on some path", len(s.blocks), len(s.fblk)))
			}
			next = false
		case "jmp":
			if k, ok := needInt(); ok {
				merge(pc+1+k, s, pc)
			} else {
				report(pc, "unpatched-jump", "jump operand is not an integer")
			}
			next = false
		case "jne", "je":
			pop(1)
			if k, ok := needInt(); ok {
				merge(pc+1+k, s, pc)
			} else {
				report(pc, "unpatched-jump", "jump operand is not an integer")
			}
		case "je.dup":
			pop(1)
			if !c.HasInt {
				report(pc, "unpatched-jump", "je.dup operand was never patched")
			} else {
				t := s.clone()
				t.h++
				merge(pc+1+int(c.Int), t, pc)
			}
		default:
			report(pc, "unknown-opcode", fmt.Sprintf("opcode %d (%s) is not executed by the VM", c.T, c.Name))
		}
		if next {
			merge(pc+1, s, pc)
		}
	}
	return errs
}
