package mon

import (
	"fmt"
	"regexp"
	"sort"
	"strconv"
	"strings"
)

// Dice-detail parsers and independently written game rules (from docs/GUIDE.md).

func ints(fields []string) ([]int64, bool) {
	var out []int64
	for _, f := range fields {
		n, err := strconv.ParseInt(f, 10, 64)
		if err != nil {
			return nil, false
		}
		out = append(out, n)
	}
	return out, true
}

func multisetEq(a, b []int64) bool {
	if len(a) != len(b) {
		return false
	}
	x := append([]int64{}, a...)
	y := append([]int64{}, b...)
	sort.Slice(x, func(i, j int) bool { return x[i] < x[j] })
	sort.Slice(y, func(i, j int) bool { return y[i] < y[j] })
	for i := range x {
		if x[i] != y[i] {
			return false
		}
	}
	return true
}

// CommonParams describes XdY with modifiers. Mode: 0 none, 1 keep low, 2 keep high, 3 drop low, 4 drop high.
type CommonParams struct {
	Times, Sides int64
	Min, Max     *int64
	Mode, Count  int64
}

func clampDie(d int64, p CommonParams) int64 {
	// max is applied first, then min (min wins when min > max) — the order is part of
	// the documented behaviour only through the result range; any order that yields a value
	// within [lo,hi] below is accepted by the range check, the displayed die is what counts.
	if p.Max != nil && d > *p.Max {
		d = *p.Max
	}
	if p.Min != nil && d < *p.Min {
		d = *p.Min
	}
	return d
}

// CheckCommon validates one XdY roll. drawn may be nil when no tap is available.
func CheckCommon(p CommonParams, total int64, detail string, drawn []int64) string {
	var kept, dropped []int64
	var ok bool
	hasBar := false
	if strings.HasPrefix(detail, "{") {
		body := strings.TrimSuffix(strings.TrimPrefix(detail, "{"), "}")
		parts := strings.SplitN(body, "|", 2)
		kept, ok = ints(strings.Fields(parts[0]))
		if !ok {
			return "unparsable " + detail
		}
		if len(parts) == 2 {
			hasBar = true
			dropped, ok = ints(strings.Fields(parts[1]))
			if !ok {
				return "unparsable " + detail
			}
		}
	} else {
		kept, ok = ints(strings.Split(detail, "+"))
		if !ok {
			return "unparsable " + detail
		}
	}
	_ = hasBar
	all := append(append([]int64{}, kept...), dropped...)
	if int64(len(all)) != p.Times {
		return fmt.Sprintf("dice shown %d != times %d in %s", len(all), p.Times, detail)
	}
	if drawn != nil {
		if int64(len(drawn)) != p.Times {
			return fmt.Sprintf("dice drawn %d != times %d", len(drawn), p.Times)
		}
		cl := make([]int64, len(drawn))
		for i, d := range drawn {
			if d < 1 || d > p.Sides {
				return fmt.Sprintf("drawn die %d outside 1..%d", d, p.Sides)
			}
			cl[i] = clampDie(d, p)
		}
		if !multisetEq(cl, all) {
			return fmt.Sprintf("displayed dice %v are not the clamped drawn dice %v", all, cl)
		}
	}
	lo, hi := int64(1), p.Sides
	if p.Max != nil && *p.Max < hi {
		hi = *p.Max
	}
	if p.Max != nil && *p.Max < lo {
		lo = *p.Max
	}
	if p.Min != nil && *p.Min > lo {
		lo = *p.Min
	}
	if p.Min != nil && *p.Min > hi {
		hi = *p.Min
	}
	for _, d := range all {
		if d < lo || d > hi {
			return fmt.Sprintf("die %d outside [%d,%d] in %s", d, lo, hi, detail)
		}
	}
	want := p.Times
	switch p.Mode {
	case 1, 2:
		want = p.Count
	case 3, 4:
		want = p.Times - p.Count
	}
	if want < 0 {
		want = 0
	}
	if want > p.Times {
		want = p.Times
	}
	if int64(len(kept)) != want {
		return fmt.Sprintf("kept %d dice, rule says %d, in %s", len(kept), want, detail)
	}
	sorted := append([]int64{}, all...)
	sort.Slice(sorted, func(i, j int) bool { return sorted[i] < sorted[j] })
	var exp int64
	switch p.Mode {
	case 0:
		for _, d := range all {
			exp += d
		}
	case 1, 4:
		for i := int64(0); i < want; i++ {
			exp += sorted[i]
		}
	case 2, 3:
		for i := int64(0); i < want; i++ {
			exp += sorted[int64(len(sorted))-1-i]
		}
	}
	var sumKept int64
	for _, d := range kept {
		sumKept += d
	}
	if total != exp {
		return fmt.Sprintf("total %d != rule %d in %s", total, exp, detail)
	}
	if sumKept != exp {
		return fmt.Sprintf("dice shown as kept sum to %d, rule says %d, in %s", sumKept, exp, detail)
	}
	return ""
}

var reCoc = regexp.MustCompile(`^\(D100=(\d+),(奖励|惩罚)([0-9 ]*)\)$`)

// CheckCoC validates a bonus/penalty roll. drawn = [d100, tens...] (tens die 1..10, 10 shown as 0).
func CheckCoC(bonus bool, n int64, total int64, detail string, drawn []int64) string {
	m := reCoc.FindStringSubmatch(detail)
	if m == nil {
		return "unparsable " + detail
	}
	d100, _ := strconv.ParseInt(m[1], 10, 64)
	if d100 < 1 || d100 > 100 {
		return "d100 out of range " + detail
	}
	if (m[2] == "奖励") != bonus {
		return "label " + detail
	}
	extras, ok := ints(strings.Fields(m[3]))
	if !ok || int64(len(extras)) != n {
		return fmt.Sprintf("extra dice shown %d, rule says %d: %s", len(extras), n, detail)
	}
	if drawn != nil {
		if int64(len(drawn)) != n+1 {
			return fmt.Sprintf("dice drawn %d, rule says %d", len(drawn), n+1)
		}
		if drawn[0] != d100 {
			return fmt.Sprintf("displayed D100=%d but drew %d", d100, drawn[0])
		}
		for i, e := range extras {
			d := drawn[i+1]
			if d < 1 || d > 10 {
				return fmt.Sprintf("tens die %d outside 1..10", d)
			}
			if d%10 != e {
				return fmt.Sprintf("tens die shown %d but drew %d", e, d)
			}
		}
	}
	units := d100 % 10
	val := func(t int64) int64 {
		v := t*10 + units
		if v == 0 {
			v = 100
		}
		return v
	}
	origT := (d100 / 10) % 10
	cands := []int64{val(origT)}
	for _, e := range extras {
		if e < 0 || e > 9 {
			return "tens digit out of range " + detail
		}
		cands = append(cands, val(e))
	}
	exp := cands[0]
	for _, c := range cands {
		if bonus && c < exp {
			exp = c
		}
		if !bonus && c > exp {
			exp = c
		}
	}
	if total != exp {
		return fmt.Sprintf("total %d != rule %d (candidates %v) for %s", total, exp, cands, detail)
	}
	if total < 1 || total > 100 {
		return fmt.Sprintf("total %d outside 1..100", total)
	}
	return ""
}

// CheckFate validates a Fate roll; drawn = four d3 results (1..3).
func CheckFate(total int64, detail string, drawn []int64) string {
	if len(detail) != 4 {
		return "expected 4 symbols: " + detail
	}
	var s int64
	for i, c := range detail {
		var v int64
		switch c {
		case '+':
			v = 1
		case '-':
			v = -1
		case '0':
		default:
			return "symbol " + detail
		}
		s += v
		if drawn != nil && i < len(drawn) && drawn[i]-2 != v {
			return fmt.Sprintf("symbol %d shown %c but drew %d", i, c, drawn[i])
		}
	}
	if drawn != nil && len(drawn) != 4 {
		return fmt.Sprintf("dice drawn %d, rule says 4", len(drawn))
	}
	if s != total {
		return fmt.Sprintf("total %d != %d for %s", total, s, detail)
	}
	return ""
}

var reWod = regexp.MustCompile(`^成功(\d+)/(\d+)(?: 轮数:(\d+))?(?: (.*))?$`)

func parseRounds(s string) ([][]string, bool) {
	var rounds [][]string
	for s != "" {
		if !strings.HasPrefix(s, "{") {
			return nil, false
		}
		end := strings.Index(s, "}")
		if end < 0 {
			return nil, false
		}
		body := s[1:end]
		var items []string
		if body != "" {
			items = strings.Split(body, ",")
		}
		rounds = append(rounds, items)
		s = s[end+1:]
		s = strings.TrimPrefix(s, ",")
	}
	return rounds, true
}

// CheckWoD validates a WoD pool roll. drawn = all dice in order (needed when details are suppressed).
func CheckWoD(addLine, pool, points, threshold int64, isGE bool, succ, all, rnds int64, detail string, drawn []int64) string {
	m := reWod.FindStringSubmatch(detail)
	if m == nil {
		return "unparsable " + detail
	}
	S, _ := strconv.ParseInt(m[1], 10, 64)
	N, _ := strconv.ParseInt(m[2], 10, 64)
	R := int64(1)
	if m[3] != "" {
		R, _ = strconv.ParseInt(m[3], 10, 64)
	}
	if S != succ || N != all || (rnds >= 0 && R != rnds) {
		return fmt.Sprintf("header %d/%d/%d vs returned %d/%d/%d: %s", S, N, R, succ, all, rnds, detail)
	}
	isSucc := func(v int64) bool {
		if isGE {
			return v >= threshold
		}
		return v <= threshold
	}
	isAdd := func(v int64) bool { return addLine != 0 && v >= addLine }
	// reconstruction from the tap: conservation of every die drawn
	if drawn != nil {
		expectPool := pool
		var sc, tot, rounds int64
		i := 0
		for expectPool > 0 {
			rounds++
			var adds int64
			for k := int64(0); k < expectPool; k++ {
				if i >= len(drawn) {
					return fmt.Sprintf("tap: round %d needs %d dice but only %d were drawn in total", rounds, expectPool, len(drawn))
				}
				v := drawn[i]
				i++
				if v < 1 || v > points {
					return fmt.Sprintf("tap: die %d outside 1..%d", v, points)
				}
				if isSucc(v) {
					sc++
				}
				if isAdd(v) {
					adds++
				}
				tot++
			}
			expectPool = adds
		}
		if i != len(drawn) {
			return fmt.Sprintf("tap: %d dice drawn but the rule consumes %d", len(drawn), i)
		}
		if sc != S || tot != N || rounds != R {
			return fmt.Sprintf("tap reconstruction %d/%d rounds %d vs header %d/%d rounds %d", sc, tot, rounds, S, N, R)
		}
	}
	if m[4] == "" {
		if pool < 15 && N <= 100 {
			return fmt.Sprintf("details missing although pool %d < 15 and %d dice ≤ 100: %s", pool, N, detail)
		}
		return ""
	}
	rounds, ok := parseRounds(m[4])
	if !ok {
		return "rounds unparsable " + detail
	}
	if int64(len(rounds)) != R {
		return fmt.Sprintf("rounds shown %d != %d: %s", len(rounds), R, detail)
	}
	expectPool := pool
	var succCount, total int64
	di := 0
	for i, rd := range rounds {
		if int64(len(rd)) != expectPool {
			return fmt.Sprintf("round %d shows %d dice, rule says %d: %s", i, len(rd), expectPool, detail)
		}
		var adds int64
		for _, it := range rd {
			add := strings.HasPrefix(it, "<") && strings.HasSuffix(it, ">")
			it = strings.TrimSuffix(strings.TrimPrefix(it, "<"), ">")
			star := strings.HasSuffix(it, "*")
			it = strings.TrimSuffix(it, "*")
			v, err := strconv.ParseInt(it, 10, 64)
			if err != nil || v < 1 || v > points {
				return "die out of range " + detail
			}
			if drawn != nil && di < len(drawn) && drawn[di] != v {
				return fmt.Sprintf("die %d shown as %d but drew %d", di, v, drawn[di])
			}
			di++
			if star != isSucc(v) || add != isAdd(v) {
				return fmt.Sprintf("marks wrong on %d: %s", v, detail)
			}
			if star {
				succCount++
			}
			if add {
				adds++
			}
			total++
		}
		expectPool = adds
		if i == len(rounds)-1 && adds != 0 {
			return "last round has re-rolls: " + detail
		}
	}
	if succCount != S || total != N {
		return fmt.Sprintf("counts %d/%d vs header %d/%d: %s", succCount, total, S, N, detail)
	}
	return ""
}

var reDC = regexp.MustCompile(`^(大失败 )?出目(\d+)/(\d+)(?: 轮数:(\d+))?(?: (.*))?$`)

// CheckDC validates a Double Cross roll: value = 10 × critical rounds + highest die of the last round.
func CheckDC(addLine, pool, points int64, res, all, rnds int64, detail string, drawn []int64) string {
	m := reDC.FindStringSubmatch(detail)
	if m == nil {
		return "unparsable " + detail
	}
	V, _ := strconv.ParseInt(m[2], 10, 64)
	N, _ := strconv.ParseInt(m[3], 10, 64)
	R := int64(1)
	if m[4] != "" {
		R, _ = strconv.ParseInt(m[4], 10, 64)
	}
	if V != res || N != all || (rnds >= 0 && R != rnds) {
		return fmt.Sprintf("header %d/%d/%d vs returned %d/%d/%d: %s", V, N, R, res, all, rnds, detail)
	}
	if drawn != nil {
		expectPool := pool
		var value, tot, rounds int64
		i := 0
		for expectPool > 0 {
			rounds++
			var adds, mx int64
			for k := int64(0); k < expectPool; k++ {
				if i >= len(drawn) {
					return fmt.Sprintf("tap: round %d needs %d dice but only %d were drawn", rounds, expectPool, len(drawn))
				}
				v := drawn[i]
				i++
				if v < 1 || v > points {
					return fmt.Sprintf("tap: die %d outside 1..%d", v, points)
				}
				if v >= addLine {
					adds++
				}
				if v > mx {
					mx = v
				}
				tot++
			}
			if adds > 0 {
				value += 10
			} else {
				value += mx
			}
			expectPool = adds
		}
		if i != len(drawn) {
			return fmt.Sprintf("tap: %d dice drawn but the rule consumes %d", len(drawn), i)
		}
		if value != V || tot != N || rounds != R {
			return fmt.Sprintf("tap reconstruction value %d dice %d rounds %d vs header %d/%d rounds %d", value, tot, rounds, V, N, R)
		}
	}
	if m[5] == "" {
		if pool < 15 && N <= 100 {
			return fmt.Sprintf("details missing although pool %d < 15 and %d dice ≤ 100: %s", pool, N, detail)
		}
		return ""
	}
	rounds, ok := parseRounds(m[5])
	if !ok || int64(len(rounds)) != R {
		return "rounds: " + detail
	}
	expectPool := pool
	var total, value int64
	for i, rd := range rounds {
		if int64(len(rd)) != expectPool {
			return fmt.Sprintf("round %d shows %d dice, rule says %d: %s", i, len(rd), expectPool, detail)
		}
		var adds, mx int64
		for _, it := range rd {
			add := strings.HasPrefix(it, "<")
			it = strings.Trim(it, "<>")
			v, err := strconv.ParseInt(it, 10, 64)
			if err != nil || v < 1 || v > points {
				return "die out of range " + detail
			}
			if add != (v >= addLine) {
				return "mark wrong: " + detail
			}
			if add {
				adds++
			}
			if v > mx {
				mx = v
			}
			total++
		}
		if adds > 0 {
			value += 10
		} else {
			value += mx
		}
		expectPool = adds
		if i == len(rounds)-1 && adds != 0 {
			return "last round has crits: " + detail
		}
	}
	if value != V || total != N {
		return fmt.Sprintf("rule says value %d dice %d, header says %d/%d: %s", value, total, V, N, detail)
	}
	if (m[1] != "") != (V == 1) {
		return "fumble label: " + detail
	}
	return ""
}
