package props

import (
	"fmt"
	"regexp"
	"strconv"
	"strings"
	"unicode/utf8"

	ds "github.com/sealdice/dicescript"

	"verif/internal/fw"
	"verif/internal/mon"
)

// C14 — the calculation-process text explains the result and observing it is harmless.

type c14Tok struct {
	kind string // term, int, op, lp, rp
	text string
}

var c14Terms = []string{"2d6", "d20", "3d6kh2", "4d6dl1", "2d20kl1", "d20优势", "d20劣势", "3d6min3", "2d6max4", "f", "b2", "p1", "b", "5a8", "4c8", "(2d1)d(3d1)", "d4d6", "2d", "d", "3a8m6k4", "2c8m12", "力量", "x1", "$t", "敏捷:当前", "1d1", "6d1k2", "10a0", "3D6K1", "2d6q1", "3d6dl5", "2d6dh4", "4d6dl4", "3d6kh5", "2d4d6k1", "d4d6d8", "(1d2)d3d4", "5d6dh2", "3d20kl2", "5c15m20", "3c12m12", "6c13m20", "4C11M12", "8c9", "20a8", "16a9", "15a8m10k8", "30a10", "14a8", "20a6m10q3"}

var c14WoDre = regexp.MustCompile(`^(\d+)[aA](\d+)(?:[mM](\d+))?(?:[kK](\d+)|[qQ](\d+))?$`)
var c14DCre = regexp.MustCompile(`^(\d+)[cC](\d+)(?:[mM](\d+))?$`)

func c14Gen(r *fw.Rand, depth int) []c14Tok {
	if depth == 0 || r.P(1, 3) {
		if r.P(1, 3) {
			return []c14Tok{{"int", strconv.Itoa(r.Intn(20))}}
		}
		return []c14Tok{{"term", r.Pick(c14Terms)}}
	}
	a, b := c14Gen(r, depth-1), c14Gen(r, depth-1)
	out := append(append(a, c14Tok{"op", r.Pick([]string{"+", "-", "*"})}), b...)
	if r.P(1, 3) {
		out = append(append([]c14Tok{{"lp", "("}}, out...), c14Tok{"rp", ")"})
	}
	return out
}

func c14Print(r *fw.Rand, toks []c14Tok) string {
	var sb strings.Builder
	sp := func() string { return r.Pick([]string{"", "", " ", "  ", "\n", " \n ", "\t"}) }
	for i, t := range toks {
		switch t.kind {
		case "op":
			sb.WriteString(sp() + t.text + sp())
		case "lp":
			sb.WriteString("(" + sp())
		case "rp":
			// no blank before ')' after a number or dice term (not in the grammar)
			sb.WriteString(")")
			if i+1 < len(toks) && toks[i+1].kind != "rp" {
				sb.WriteString(r.Pick([]string{"", " "}))
			}
		default:
			sb.WriteString(t.text)
		}
	}
	return sb.String()
}

// stripAnnotations deletes balanced [...] and returns the values that precede each top-level one.
func stripAnnotations(s string) (string, bool) {
	var sb strings.Builder
	depth := 0
	for _, c := range s {
		switch {
		case c == '[':
			depth++
		case c == ']':
			depth--
			if depth < 0 {
				return "", false
			}
		case depth == 0:
			sb.WriteRune(c)
		}
	}
	return sb.String(), depth == 0
}

type arith struct {
	s   []rune
	pos int
	err bool
}

func (p *arith) ws() {
	for p.pos < len(p.s) && strings.ContainsRune(" \n\t\r", p.s[p.pos]) {
		p.pos++
	}
}
func (p *arith) expr() int64 {
	v := p.term()
	for {
		p.ws()
		if p.pos < len(p.s) && (p.s[p.pos] == '+' || p.s[p.pos] == '-') {
			op := p.s[p.pos]
			p.pos++
			w := p.term()
			if op == '+' {
				v += w
			} else {
				v -= w
			}
		} else {
			return v
		}
	}
}
func (p *arith) term() int64 {
	v := p.unary()
	for {
		p.ws()
		if p.pos < len(p.s) && p.s[p.pos] == '*' {
			p.pos++
			v *= p.unary()
		} else {
			return v
		}
	}
}
func (p *arith) unary() int64 {
	p.ws()
	if p.pos < len(p.s) && p.s[p.pos] == '-' {
		p.pos++
		return -p.unary()
	}
	if p.pos < len(p.s) && p.s[p.pos] == '(' {
		p.pos++
		v := p.expr()
		p.ws()
		if p.pos < len(p.s) && p.s[p.pos] == ')' {
			p.pos++
		} else {
			p.err = true
		}
		return v
	}
	st := p.pos
	for p.pos < len(p.s) && p.s[p.pos] >= '0' && p.s[p.pos] <= '9' {
		p.pos++
	}
	if st == p.pos {
		p.err = true
		return 0
	}
	n, _ := strconv.ParseInt(string(p.s[st:p.pos]), 10, 64)
	return n
}

// annotationTotal recomputes the total implied by the dice listed in a span's text.
func annotationTotal(tag, text string) (int64, bool, string) {
	switch tag {
	case "dice":
		if text == "" {
			return 0, false, ""
		}
		if strings.HasPrefix(text, "{") {
			body := strings.TrimSuffix(strings.TrimPrefix(text, "{"), "}")
			parts := strings.SplitN(body, "|", 2)
			var s int64
			for _, f := range strings.Fields(parts[0]) {
				n, err := strconv.ParseInt(f, 10, 64)
				if err != nil {
					return 0, false, "unparsable " + text
				}
				s += n
			}
			return s, true, ""
		}
		var s int64
		for _, f := range strings.Split(text, "+") {
			n, err := strconv.ParseInt(f, 10, 64)
			if err != nil {
				return 0, false, "unparsable " + text
			}
			s += n
		}
		return s, true, ""
	case "dice-fate":
		var s int64
		for _, c := range text {
			switch c {
			case '+':
				s++
			case '-':
				s--
			case '0':
			default:
				return 0, false, "unparsable " + text
			}
		}
		return s, true, ""
	case "dice-wod", "dice-dc":
		re := regexp.MustCompile(`(?:成功|出目)(\d+)/`)
		m := re.FindStringSubmatch(text)
		if m == nil {
			return 0, false, "unparsable " + text
		}
		n, _ := strconv.ParseInt(m[1], 10, 64)
		return n, true, ""
	}
	return 0, false, ""
}

func c14N(tier string) int {
	if tier == "thorough" {
		return 6000000
	}
	return 400000
}

func c14Case(w *fw.W, idx int, r *fw.Rand) {
	toks := c14Gen(r, 1+r.Intn(3))
	src := c14Print(r, toks)
	// the multi-byte variable gets an arbitrary CJK name (1-3 characters from the whole block,
	// so every final byte 0x80..0xBF occurs), not one fixed spelling
	cjk := "力量"
	if r.P(2, 3) {
		var sb strings.Builder
		for k := r.Range(1, 4); k > 0; k-- {
			sb.WriteRune(rune(0x4e00 + r.Intn(0x9fa5-0x4e00)))
		}
		cjk = sb.String()
		src = strings.ReplaceAll(src, "力量", cjk)
	}
	tail := ""
	if r.P(1, 4) {
		tail = r.Pick([]string{" 理由", " reason", " ,", "  测试"})
	}
	cfg := AllDice()
	cfg.Seed = r.U64() | 1
	if r.P(1, 4) {
		cfg.DefSide = "20"
	}
	desc := fmt.Sprintf("cfg=%s src=%q tail=%q", cfg, src, tail)
	w.Begin(idx, desc)
	vm := cfg.NewVM()
	vm.Attrs.Store(cjk, ds.NewIntVal(60))
	vm.Attrs.Store("x1", ds.NewIntVal(3))
	vm.Attrs.Store("$t", ds.NewIntVal(7))
	vm.Attrs.Store("敏捷:当前", ds.NewIntVal(45))
	w.Eval(1)
	var err error
	pv, st := fw.Guard(func() { err = vm.Run(src + tail) })
	if pv != nil {
		w.Violate(idx, "panic", fw.PanicKey(pv, st), desc, fmt.Sprint(pv), nil)
		return
	}
	if err != nil {
		w.Violate(idx, "mismatch", "detail|valid-expression-rejected", desc, firstLine(err.Error()), nil)
		return
	}
	if strings.TrimSpace(vm.RestInput) != strings.TrimSpace(tail) {
		w.Violate(idx, "mismatch", "detail|not-consumed", desc, fmt.Sprintf("RestInput=%q", vm.RestInput), nil)
		return
	}
	retBefore, varsBefore, seedBefore := Canon(vm.Ret), CanonVars(vm), seedOf(vm)
	if r.Bool() {
		_ = vm.GetAsmText()
		_ = vm.Ret.ToString()
	}
	var d1, d2 string
	pv, st = fw.Guard(func() { d1 = vm.GetDetailText(); d2 = vm.GetDetailText() })
	if pv != nil {
		w.Violate(idx, "panic", fw.PanicKey(pv, st), desc, "GetDetailText: "+fmt.Sprint(pv), nil)
		return
	}
	if d1 != d2 {
		w.Violate(idx, "mismatch", "detail|not-idempotent", desc, fmt.Sprintf("%q then %q", d1, d2), nil)
	}
	if !utf8.ValidString(d1) {
		w.Violate(idx, "mismatch", "detail|invalid-utf8", desc, fmt.Sprintf("the process text %q is not valid UTF-8 (a span was cut inside a character)", d1), nil)
	}
	if Canon(vm.Ret) != retBefore || CanonVars(vm) != varsBefore || seedOf(vm) != seedBefore {
		w.Violate(idx, "mismatch", "detail|side-effect", desc, "Ret, variables or generator state changed across GetDetailText", nil)
	}
	ret, ok := vm.Ret.ReadInt()
	if !ok {
		w.Violate(idx, "mismatch", "detail|non-int", desc, "arithmetic over dice returned "+vm.Ret.ToRepr(), nil)
		return
	}
	w.Count("expressions", 1)
	hasTerm := false
	for _, t := range toks {
		if t.kind == "term" {
			hasTerm = true
		}
	}
	if d1 == "" {
		// legal only when the substituted text would equal the result's string form: a lone literal
		// without any roll or variable there is nothing to explain (no spans are recorded);
		// a single term whose annotation is elided (rule 1.3) collapses to the number = Ret
		if hasTerm && len(toks) > 1 {
			w.Violate(idx, "mismatch", "detail|empty", desc, fmt.Sprintf("empty process text although the expression has %d tokens with rolls (ret %d)", len(toks), ret), nil)
		}
		w.Count("empty_detail", 1)
		return
	}
	stripped, bal := stripAnnotations(d1)
	if !bal {
		w.Violate(idx, "mismatch", "detail|unbalanced", desc, d1, nil)
		return
	}
	// (1) the stripped text is the source with each term replaced by a number
	var re strings.Builder
	re.WriteString(`^\s*`)
	for _, t := range toks {
		switch t.kind {
		case "term":
			re.WriteString(`-?\d+`)
		case "int":
			re.WriteString(regexp.QuoteMeta(t.text))
		default:
			re.WriteString(regexp.QuoteMeta(t.text))
		}
		re.WriteString(`\s*`)
	}
	re.WriteString(`$`)
	if !regexp.MustCompile(re.String()).MatchString(stripped) {
		w.Violate(idx, "mismatch", "detail|not-source-shape", desc, fmt.Sprintf("process text %q without annotations is %q, which is not the source with rolls replaced by numbers", d1, stripped), nil)
		return
	}
	// (2) it evaluates to the result. A negative substituted value directly after '-' or '*'
	// (e.g. "3*-2") is read by the own evaluator as unary minus, as arithmetic does.
	p := &arith{s: []rune(stripped)}
	v := p.expr()
	p.ws()
	if p.err || p.pos != len(p.s) {
		w.Violate(idx, "mismatch", "detail|not-arithmetic", desc, fmt.Sprintf("%q -> %q", d1, stripped), nil)
		return
	}
	if v != int64(ret) {
		w.Violate(idx, "mismatch", "detail|value", desc, fmt.Sprintf("process text %q evaluates to %d but the result is %d", d1, v, ret), nil)
	}
	// (3) every dice span: its value is the total of the dice it lists; the number written
	// before its annotation in the text is that value
	for _, s := range vm.DetailSpans {
		if s.Ret == nil {
			continue
		}
		sv, isInt := s.Ret.ReadInt()
		if !isInt {
			continue
		}
		if tot, ok, bad := annotationTotal(s.Tag, s.Text); bad != "" {
			w.Violate(idx, "mismatch", "detail|annotation-unparsable|"+s.Tag, desc, bad, nil)
		} else if ok && tot != int64(sv) {
			w.Violate(idx, "mismatch", "detail|annotation-total|"+s.Tag, desc, fmt.Sprintf("span %q value %d but its dice %q total %d", src[s.Begin:minInt(int(s.End), len(src))], sv, s.Text, tot), nil)
		}
		if m := c14DCre.FindStringSubmatch(src[s.Begin:minInt(int(s.End), len(src))]); m != nil && s.Tag == "dice-dc" {
			// Double Cross: the value is what the rule computes from the rounds listed
			pool, _ := strconv.ParseInt(m[1], 10, 64)
			add, _ := strconv.ParseInt(m[2], 10, 64)
			points := int64(10)
			if m[3] != "" {
				points, _ = strconv.ParseInt(m[3], 10, 64)
			}
			if bad := mon.CheckDC(add, pool, points, int64(sv), headerAll(s.Text), -1, s.Text, nil); bad != "" {
				w.Violate(idx, "mismatch", "detail|annotation-total|"+s.Tag, desc, bad, nil)
			}
			w.Count("dc_spans_rule_checked", 1)
		}
		if m := c14WoDre.FindStringSubmatch(src[s.Begin:minInt(int(s.End), len(src))]); m != nil && s.Tag == "dice-wod" {
			// WoD: the success count is what the rule computes from the rounds listed (and a pool
			// that lists dice lists all of them)
			pool, _ := strconv.ParseInt(m[1], 10, 64)
			add, _ := strconv.ParseInt(m[2], 10, 64)
			points, th, ge := int64(10), int64(8), true
			if m[3] != "" {
				points, _ = strconv.ParseInt(m[3], 10, 64)
			}
			if m[4] != "" {
				th, _ = strconv.ParseInt(m[4], 10, 64)
			}
			if m[5] != "" {
				th, _ = strconv.ParseInt(m[5], 10, 64)
				ge = false
			}
			if bad := mon.CheckWoD(add, pool, points, th, ge, int64(sv), headerAll(s.Text), -1, s.Text, nil); bad != "" {
				w.Violate(idx, "mismatch", "detail|annotation-total|"+s.Tag, desc, bad, nil)
			}
			w.Count("wod_spans_rule_checked", 1)
		}
		if s.Tag == "dice-coc-bonus" || s.Tag == "dice-coc-penalty" {
			n := int64(len(strings.Fields(strings.TrimSuffix(s.Text[strings.IndexAny(s.Text, "励罚")+3:], ")"))))
			if bad := mon.CheckCoC(s.Tag == "dice-coc-bonus", n, int64(sv), s.Text, nil); bad != "" {
				w.Violate(idx, "mismatch", "detail|annotation-total|"+s.Tag, desc, bad, nil)
			}
		}
		w.Count("spans_checked", 1)
		w.SetAdd("tags", s.Tag)
	}
	// re-running the parsed program: the text must describe the new run
	if r.P(1, 4) {
		var err2 error
		pv, st = fw.Guard(func() { err2 = vm.RunAfterParsed() })
		if pv != nil {
			w.Violate(idx, "panic", fw.PanicKey(pv, st), desc, "RunAfterParsed: "+fmt.Sprint(pv), nil)
		} else if err2 == nil {
			d3 := vm.GetDetailText()
			ret3, _ := vm.Ret.ReadInt()
			if st3, ok := stripAnnotations(d3); ok && d3 != "" {
				p3 := &arith{s: []rune(st3)}
				v3 := p3.expr()
				p3.ws()
				if !p3.err && p3.pos == len(p3.s) && v3 != int64(ret3) {
					w.Violate(idx, "mismatch", "detail|stale-after-rerun", desc, fmt.Sprintf("after a second RunAfterParsed the result is %d but the process text %q evaluates to %d", ret3, d3, v3), nil)
				}
			}
			w.Count("reruns_checked", 1)
		}
	}
	w.Note(fw.Hash64(src, tail))
	if idx%5000 == 2 {
		w.Sample(map[string]any{"src": src + tail, "seed": cfg.Seed, "ret": ret, "detail": trunc(d1, 200)})
	}
}

func minInt(a, b int) int {
	if a < b {
		return a
	}
	return b
}

func init() {
	fw.Register(&fw.Prop{
		ID:      "C14",
		AsLimit: true,
		NCases:  c14N,
		Run:     c14Case,
		Floors: func(tier string) map[string]int64 {
			return map[string]int64{"expressions": 30000, "spans_checked": 40000}
		},
		Rule:        "case = arithmetic expression over integer literals, parentheses, + - * and dice terms of every family / variables with multi-byte names, printed with arbitrary legal spacing and line breaks, optional trailing rest text, seeded. Monitors: GetDetailText twice (idempotent), Ret/variables/generator state unchanged across it; annotations deleted → text must be the source with each roll replaced by a number and evaluate (own evaluator) to Ret; each span's value equals the total of the dice it lists. distinct = hash(source)",
		Assumptions: []string{"shape rules ([略] above 400 chars, elision rule 1.3) as documented in rollvm.go"},
	})
}
