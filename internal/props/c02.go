package props

import (
	"fmt"
	"strings"

	ds "github.com/sealdice/dicescript"

	"verif/internal/fw"
	"verif/internal/ref"
)

// C02 — evaluation agrees with the language's definitional semantics.
//
// Oracle: the reference interpreter (internal/ref), an AST-level evaluator written from
// docs/GUIDE.md, roll.peg's precedence and the behaviour pinned by the repository's tests.
// It answers value / error / unspecified; unspecified cases are counted and never judged.

func c02N(tier string) int {
	if tier == "thorough" {
		return 500000
	}
	return 14000
}

func c02VMVars(vm *ds.Context) map[string]string {
	m := map[string]string{}
	vm.Attrs.Range(func(k string, v *ds.VMValue) bool {
		if v != nil && v.TypeId != ds.VMTypeNull {
			m[k] = ref.CanonV(v)
		}
		return true
	})
	return m
}

func c02Case(w *fw.W, idx int, r *fw.Rand) {
	nprog := r.Range(1, 4)
	cfg := Cfg{IgnoreDiv0: r.Bool(), Seed: 5}
	env := ref.NewEnv()
	diceLevel := 1
	switch r.Intn(3) {
	case 0:
		cfg.Min, env.Mode, diceLevel = true, -1, 2
	case 1:
		cfg.Max, env.Mode, diceLevel = true, 1, 2
	}
	env.IgnoreDiv0 = cfg.IgnoreDiv0
	// one VM per spelling, all sharing the same program sequence
	spellings := []string{"minimal", "noisy", "noisy2"}
	vms := make([]*ds.Context, len(spellings))
	for i := range vms {
		vms[i] = cfg.NewVM()
		if err := vms[i].Run(ref.Setup); err != nil {
			w.Violate(idx, "semantics", "semantics|setup", ref.Setup, err.Error(), nil)
			return
		}
	}
	var history []string
	for p := 0; p < nprog; p++ {
		g := ref.NewGen(r).WithDice(diceLevel)
		var prog []*ref.Node
		if r.Bool() {
			prog = g.Expr(3)
		} else {
			prog = g.Stmts(2, 4)
		}
		minimal := ref.Print(r, false, prog)
		history = append(history, minimal)
		w.Begin(idx, fmt.Sprintf("history=%q", history))
		want := env.Run(prog)
		w.Eval(1)
		w.Count("programs", 1)
		if want.Kind == "unspecified" {
			w.Count("unspecified", 1)
			w.SetAdd("unspecified_reasons", want.Why)
			// the VMs still execute it so that later programs of the sequence see the same
			// state — but the reference state is unknown now: end the sequence
			return
		}
		for si, sp := range spellings {
			src := minimal
			if si > 0 {
				src = ref.Print(r, true, prog)
			}
			vm := vms[si]
			var err error
			pv, st := fw.Guard(func() { err = vm.Run(src) })
			desc := fmt.Sprintf("cfg=%s spelling=%s src=%q earlier=%q", cfg, sp, src, history[:len(history)-1])
			w.Eval(1)
			w.Count("judged_runs", 1)
			if pv != nil {
				w.Violate(idx, "panic", fw.PanicKey(pv, st), desc, fmt.Sprint(pv), nil)
				return
			}
			got := ref.Outcome{Vars: c02VMVars(vm)}
			switch {
			case err != nil:
				got.Kind, got.Why = "error", firstLine(err.Error())
			case strings.TrimSpace(vm.RestInput) != "":
				got.Kind, got.Why = "rest", vm.RestInput
			default:
				got.Kind = "value"
				got.Ret = ref.CanonV(vm.Ret)
			}
			verdict := ""
			switch {
			case got.Kind == "rest":
				verdict = "rest-input"
			case got.Kind != want.Kind:
				verdict = "errorness"
			case want.Kind == "value" && !want.RetU && got.Ret != want.Ret:
				verdict = "ret"
			case !ref.VarsEqual(got.Vars, want.Vars):
				verdict = "vars"
			}
			if verdict != "" {
				det := fmt.Sprintf("reference: %s %s %s\nvm:        %s %s %s", want.Kind, want.Ret, want.Why, got.Kind, got.Ret, got.Why)
				if verdict == "vars" {
					det += fmt.Sprintf("\nreference vars %v\nvm vars        %v", ref.SortedVars(want.Vars), ref.SortedVars(got.Vars))
				}
				w.Violate(idx, "semantics", "semantics|"+verdict, desc, det, nil)
				return
			}
			w.Count("agreements", 1)
		}
		if want.Kind == "error" {
			w.Count("reference_errors", 1)
		} else {
			w.Count("reference_values", 1)
		}
		w.Note(fw.Hash64(minimal, fmt.Sprint(p)))
	}
	if idx%1400 == 0 {
		w.Sample(map[string]any{"programs": history})
	}
}

func init() {
	fw.Register(&fw.Prop{
		ID:      "C02",
		AsLimit: true,
		NCases:  c02N,
		Run:     c02Case,
		Floors: func(tier string) map[string]int64 {
			return map[string]int64{"judged_runs": 20000, "agreements": 15000, "reference_errors": 1000, "reference_values": 5000}
		},
		Rule:        "case = sequence of 1–4 generated programs on one VM (expressions of depth 3 or 1–4 statements of depth 2: literals, arrays, ranges, dicts, index/slice/attr, variables, all unary/binary/ternary/multi-ternary/logical operators, if/else, while with break/continue, functions, return, built-ins and methods, templates), each printed in three spellings (minimal, two random legal whitespace layouts) and run on three VMs; the reference interpreter gives value/error/unspecified; Ret (type-exact, floats bit-wise, containers element-wise), error-ness and all variables must agree, also for later programs after failed ones. distinct = hash(program, position)",
		Assumptions: []string{"the reference interpreter internal/ref is the trusted base; where the documentation is silent it declines (counted as unspecified)"},
	})
}
