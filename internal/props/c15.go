package props

import (
	"fmt"
	"strings"

	ds "github.com/sealdice/dicescript"

	"verif/internal/fw"
	"verif/internal/hook"
)

// C15 — min-mode and max-mode bracket every roll.

type c15Term struct {
	src      string
	min, max int64 // analytic attained bounds; valid when exact
	exact    bool
	fam      string
}

func c15XdY(r *fw.Rand) c15Term {
	times := int64(r.Range(1, 6))
	if r.P(1, 6) {
		times = fw.PickT(r, []int64{15, 16, 17, 20, 40, 64})
	}
	sides := fw.PickT(r, []int64{1, 2, 6, 20, 100})
	if r.P(1, 5) {
		// face counts around the 16-, 31- and 32-bit boundaries and beyond
		sides = fw.PickT(r, []int64{1000, 65535, 65536, 65537, 2147483646, 2147483647, 2147483648, 3000000000, 4294967295, 4294967296, 4294967297, 1 << 40})
	}
	src := fmt.Sprintf("%dd%d", times, sides)
	kept := times
	switch r.Intn(6) {
	case 0:
		c := int64(r.Range(1, int(times)+1))
		src += r.Pick([]string{"kh", "k"}) + fmt.Sprint(c)
		kept = c
	case 1:
		c := int64(r.Range(1, int(times)+1))
		src += r.Pick([]string{"kl", "q"}) + fmt.Sprint(c)
		kept = c
	case 2:
		c := int64(r.Range(1, int(times)+1))
		src += "dh" + fmt.Sprint(c)
		kept = times - c
	case 3:
		c := int64(r.Range(1, int(times)+1))
		src += "dl" + fmt.Sprint(c)
		kept = times - c
	}
	if kept > times {
		kept = times
	}
	if kept < 0 {
		kept = 0
	}
	lo, hi := int64(1), sides
	clamp := func(d int64, mn, mx *int64) int64 {
		if mx != nil && d > *mx {
			d = *mx
		}
		if mn != nil && d < *mn {
			d = *mn
		}
		return d
	}
	var mn, mx *int64
	switch r.Intn(5) {
	case 0:
		v := fw.PickT(r, []int64{0, 1, 2, sides/2 + 1, sides, sides + 1})
		mn = &v
		src += "min" + fmt.Sprint(v)
	case 1:
		v := fw.PickT(r, []int64{0, 1, 2, sides/2 + 1, sides, sides + 1})
		mx = &v
		src += "max" + fmt.Sprint(v)
	}
	return c15Term{src: src, min: kept * clamp(lo, mn, mx), max: kept * clamp(hi, mn, mx), exact: true, fam: "xdy"}
}

func c15TermGen(r *fw.Rand) c15Term {
	switch r.Intn(10) {
	case 0:
		return c15Term{src: "f", min: -4, max: 4, exact: true, fam: "fate"}
	case 1:
		n := r.Intn(4)
		s := r.Pick([]string{"b", "p"})
		if n != 1 || r.Bool() {
			s += fmt.Sprint(n)
		}
		return c15Term{src: s, min: 1, max: 100, exact: true, fam: "coc"}
	case 2:
		sides := fw.PickT(r, []int64{4, 20, 100})
		if r.Bool() {
			return c15Term{src: fmt.Sprintf("d%d优势", sides), min: 1, max: sides, exact: true, fam: "adv"}
		}
		return c15Term{src: fmt.Sprintf("d%d劣势", sides), min: 1, max: sides, exact: true, fam: "adv"}
	default:
		return c15XdY(r)
	}
}

// c15Expr builds a monotone expression: sum of (term | term*const | const*term | const).
func c15Expr(r *fw.Rand) (string, int64, int64, []string) {
	n := r.Range(1, 3)
	var parts []string
	var lo, hi int64
	var fams []string
	for i := 0; i < n; i++ {
		t := c15TermGen(r)
		fams = append(fams, t.fam)
		switch r.Intn(4) {
		case 0:
			c := int64(r.Intn(5))
			parts = append(parts, fmt.Sprintf("%s*%d", t.src, c))
			lo += t.min * c
			hi += t.max * c
		case 1:
			c := int64(r.Intn(5))
			parts = append(parts, fmt.Sprintf("%d * %s", c, t.src))
			lo += t.min * c
			hi += t.max * c
		default:
			parts = append(parts, t.src)
			lo += t.min
			hi += t.max
		}
		if r.P(1, 4) {
			c := int64(r.Intn(10))
			parts = append(parts, fmt.Sprint(c))
			lo += c
			hi += c
		}
	}
	return strings.Join(parts, r.Pick([]string{"+", " + "})), lo, hi, fams
}

func c15N(tier string) int {
	if tier == "thorough" {
		return 60000
	}
	return 9000
}

func c15Run(cfg Cfg, wrap int, src string, tap *rollTap) (int64, string, string, string) {
	vm := cfg.NewVM()
	before := seedOf(vm)
	prog := src
	switch wrap {
	case 1:
		prog = "func g() { " + src + " }; g()"
	case 2:
		prog = "&v = " + src + "; v"
	case 3:
		prog = "`{" + src + "}`"
	}
	if tap != nil {
		hook.Set(&tap.Monitor)
		defer hook.Set(nil)
	}
	var err error
	pv, _ := fw.Guard(func() { err = vm.Run(prog) })
	if pv != nil {
		return 0, "panic: " + fmt.Sprint(pv), "", ""
	}
	if err != nil {
		return 0, "error: " + firstLine(err.Error()), "", ""
	}
	after := seedOf(vm)
	var v int64
	if wrap == 3 {
		s, _ := vm.Ret.ReadString()
		if _, e := fmt.Sscanf(s, "%d", &v); e != nil {
			return 0, "non-int template: " + s, "", ""
		}
	} else {
		i, ok := vm.Ret.ReadInt()
		if !ok {
			return 0, "non-int: " + vm.Ret.ToRepr(), "", ""
		}
		v = int64(i)
	}
	return v, "", before, after
}

// c15EdgeSides: face counts at the very top of the integer range. Such a term is either rejected
// in every mode, or it obeys the bracket like any other (in particular a roll is never 0).
func c15EdgeSides(w *fw.W, idx int, r *fw.Rand) {
	sides := r.Pick([]string{"9223372036854775807", "9223372036854775806", "(9223372036854775806+1)", "4611686018427387904", "9223372036854775805", "99999999999999999999", "(4611686018427387904*2-1)"})
	// one die counts (several dice only with keep-one): sums of such dice overflow the integer
	// range, which is ordinary integer arithmetic and not the bracket's business
	src := r.Pick([]string{"d", "1d"}) + sides
	if r.Bool() {
		src = r.Pick([]string{"2d", "3d"}) + sides + r.Pick([]string{"kh1", "kl1", "k1", "q1"})
	}
	seed := r.U64() | 1
	desc := fmt.Sprintf("edge-sides seed=%d src=%q", seed, src)
	w.Begin(idx, desc)
	base := Cfg{CoC: true, Fate: true, Seed: seed}
	cmin, cmax := base, base
	cmin.Min = true
	cmax.Max = true
	mn, e1, _, _ := c15Run(cmin, 0, src, nil)
	mx, e2, _, _ := c15Run(cmax, 0, src, nil)
	w.Eval(2)
	w.Count("edge_side_terms", 1)
	for k := 0; k < 12; k++ {
		c := base
		c.Seed = r.U64() | 1
		v, e, _, _ := c15Run(c, 0, src, nil)
		w.Eval(1)
		rejected := 0
		for _, x := range []string{e1, e2, e} {
			if x != "" {
				rejected++
			}
		}
		if rejected == 3 {
			w.Count("edge_side_terms_rejected", 1)
			return
		}
		if rejected != 0 {
			w.Violate(idx, "mismatch", "bracket|edge-sides|rejected-in-some-modes", desc, fmt.Sprintf("min-mode error %q, max-mode error %q, random error %q", e1, e2, e), nil)
			return
		}
		if v < mn || v > mx || v < 1 {
			w.Violate(idx, "mismatch", "bracket|outside|edge-sides", desc, fmt.Sprintf("random result %d (seed %d) outside [min-mode %d, max-mode %d]", v, c.Seed, mn, mx), nil)
			return
		}
	}
	w.Note(fw.Hash64(desc))
}

func c15Case(w *fw.W, idx int, r *fw.Rand) {
	if r.P(1, 40) {
		c15EdgeSides(w, idx, r)
		return
	}
	K := 24
	if w.Tier == "thorough" {
		K = 256
	}
	src, lo, hi, fams := c15Expr(r)
	wrap := r.Intn(4)
	if r.Bool() {
		wrap = 0
	}
	seed := r.U64() | 1
	desc := fmt.Sprintf("wrap=%d seed=%d src=%q", wrap, seed, src)
	w.Begin(idx, desc)
	base := Cfg{CoC: true, Fate: true, Seed: seed}
	if r.P(1, 5) {
		base.Seed = 0 // a context without its own generator: same bounds, and the package generator stays untouched in min/max mode
		desc += " unseeded"
		w.Begin(idx, desc)
	}
	cmin, cmax := base, base
	cmin.Min = true
	cmax.Max = true
	tapMin, tapMax := newRollTap(), newRollTap()
	mn, e1, b1, a1 := c15Run(cmin, wrap, src, tapMin)
	mx, e2, b2, a2 := c15Run(cmax, wrap, src, tapMax)
	w.Eval(2)
	if e1 != "" || e2 != "" {
		w.Violate(idx, "mismatch", "bracket|error", desc, fmt.Sprintf("min-mode: %s / max-mode: %s", e1, e2), nil)
		return
	}
	if b1 != a1 || b2 != a2 {
		w.Violate(idx, "mismatch", "bracket|randomness-consumed", desc, "the generator state changed in min/max mode", nil)
	}
	// the tap reports dice in min/max mode with their mode; a die in mode 0 would be a real draw
	for _, t := range []*rollTap{tapMin, tapMax} {
		_ = t
	}
	if mn != lo {
		w.Violate(idx, "mismatch", "bracket|min-not-attained|"+strings.Join(fams, "+"), desc, fmt.Sprintf("min-mode result %d, every die at its lowest face gives %d", mn, lo), nil)
	}
	if mx != hi {
		w.Violate(idx, "mismatch", "bracket|max-not-attained|"+strings.Join(fams, "+"), desc, fmt.Sprintf("max-mode result %d, every die at its highest face gives %d", mx, hi), nil)
	}
	obsLo, obsHi := int64(1<<62), int64(-1<<62)
	for k := 0; k < K; k++ {
		c := base
		if base.Seed != 0 {
			c.Seed = r.U64() | 1
		}
		v, e, _, _ := c15Run(c, wrap, src, nil)
		w.Eval(1)
		if e != "" {
			w.Violate(idx, "mismatch", "bracket|error", desc, "random mode: "+e, nil)
			return
		}
		if v < obsLo {
			obsLo = v
		}
		if v > obsHi {
			obsHi = v
		}
		if v < mn || v > mx {
			w.Violate(idx, "mismatch", "bracket|outside|"+strings.Join(fams, "+"), desc, fmt.Sprintf("random result %d (seed %d) outside [min-mode %d, max-mode %d]", v, c.Seed, mn, mx), nil)
			break
		}
	}
	w.Count("expressions", 1)
	w.Count("random_runs", int64(K))
	for _, f := range fams {
		w.Count("term_"+f, 1)
	}
	w.Note(fw.Hash64(src, fmt.Sprint(wrap)))
	if idx%1500 == 1 {
		w.Sample(map[string]any{"src": src, "wrap": wrap, "min_mode": mn, "max_mode": mx, "observed": []int64{obsLo, obsHi}})
	}
}

// exploding dice: only "no randomness consumed" is required
func c15Explode(w *fw.W, idx int, r *fw.Rand) {
	src := r.Pick([]string{"5a11", "3a0", "4c11", "2a11m10k8", "6a0m6q2", "3c12m10"})
	for _, mode := range []string{"min", "max"} {
		c := Cfg{WoD: true, DC: true, Seed: r.U64() | 1, Min: mode == "min", Max: mode == "max", OpLimit: 30000}
		vm := c.NewVM()
		before := seedOf(vm)
		fw.Guard(func() { _ = vm.Run(src) })
		if seedOf(vm) != before {
			w.Violate(idx, "mismatch", "bracket|randomness-consumed", mode+" "+src, "the generator state changed in "+mode+" mode", nil)
		}
		w.Eval(1)
	}
	w.Count("exploding_checked", 1)
}

func init() {
	fw.Register(&fw.Prop{
		ID:     "C15",
		NCases: c15N,
		Run: func(w *fw.W, idx int, r *fw.Rand) {
			if idx%20 == 19 {
				c15Explode(w, idx, r)
				return
			}
			c15Case(w, idx, r)
		},
		Floors: func(tier string) map[string]int64 {
			return map[string]int64{"expressions": 5000, "term_xdy": 3000, "term_coc": 300, "term_fate": 300, "random_runs": 100000}
		},
		Rule:        "case = monotone expression (1–3 dice terms: XdY with every keep/drop/min/max modifier, Fate, CoC b/p 0..3, advantage forms; sums and products with non-negative constants), evaluated bare / inside a function / a computed value / a template hole; min-mode and max-mode once each (generator state must not move; results must equal the analytic every-die-lowest / every-die-highest value) and K random seeds (24 quick / 256 thorough) that must fall inside [min,max]. distinct = hash(expression, wrapper)",
		Assumptions: []string{"WoD and Double Cross (exploding) are excluded from bracketing as the property states; they are only checked for not consuming randomness", "CoC bounds are 1..100"},
	})
}

var _ = ds.NewVM
