package props

import (
	"encoding/json"
	"fmt"
	"strings"
	"sync"
	"sync/atomic"

	ds "github.com/sealdice/dicescript"
	xrand "golang.org/x/exp/rand"

	"verif/internal/fw"
	"verif/internal/gen"
	"verif/internal/hook"
)

// C06 — seeded evaluation is reproducible and resumable.

func c06Program(r *fw.Rand) (string, string) {
	d := func() string { return gen.DiceProgram(r) }
	if r.P(1, 12) {
		// everything a program can observe about a dict's key order (printing, keys/values/items,
		// a random pick over them, the process text) is a function of the seed alone
		pool := []string{"1", "01", "2", "10", "1x", "nan", "NaN", "inf", "-1", "1e1", "10.0", "0x10", " 1", "a", "B", "b", "é", "中", "", "1 ", "+1", "9", "09", "1.0", "k", "2x", "x2", "100", "20"}
		n := r.Range(3, 9)
		var kv []string
		for _, i := range r.Perm(len(pool))[:n] {
			kv = append(kv, "'"+pool[i]+"': "+r.Pick([]string{"1", "d6", "'v'", "2d1000"}))
		}
		lit := "{" + strings.Join(kv, ", ") + "}"
		return "dd = " + lit + "; vv = dd.values(); [dd.keys(), vv, toStr(dd), dd.items(), dd.keys().rand(), vv[0], `{dd}`]", "dict-order"
	}
	if r.P(1, 15) {
		// face counts between 2^62 and 2^63 that are not powers of two: about every third draw falls
		// into the zone the sampler has to reject and draw again, and the second draw has to come
		// from the context's generator like the first
		big := func() string {
			return r.Pick([]string{"6148914691236517206", "9223372036854775807", "4611686018427387905", "6917529027641081856", "9223372036854775806", "5000000000000000000", "7777777777777777777"})
		}
		return r.Pick([]string{
			"[d" + big() + ", d" + big() + ", 2d" + big() + "kh1, d" + big() + "]",
			"func hg() { d" + big() + " }; [hg(), hg(), hg(), d" + big() + "]",
			"&hc = d" + big() + "; [hc, hc, hc, `{d" + big() + "}`]",
			"i = 0; xs = []; while i < 6 { i = i + 1; xs.push(d" + big() + ") }; xs",
		}), "huge-sides"
	}
	switch r.Intn(20) {
	case 0, 1, 2:
		return d(), "dice"
	case 3:
		return "func g() { " + d() + " }; g() + g()", "dice-in-function"
	case 4:
		return "&cv = " + d() + "; cv + cv", "dice-in-computed"
	case 5:
		return "`a{" + d() + "}b{% " + d() + " %}`", "dice-in-template"
	case 6:
		return "xs = [1,2,3,4,5,6,7,8]; xs.shuffle(); xs", "shuffle"
	case 7:
		return "xs = [1,2,3,4,5,6,7,8,9,10,11,12]; [xs.rand(), xs.rand(), xs.rand(), xs.rand(), xs.rand(), xs.rand()]", "rand"
	case 8:
		return "xs = [1,2,3,4,5,6,7,8]; xs.randSize(5)", "randSize"
	case 9:
		return "i = 0; s = 0; while i < 5 { i = i + 1; s = s + " + gen.DiceTerm(r) + " }; s", "dice-in-loop"
	case 10:
		return "2d + d + 3d", "default-sides"
	case 11:
		return "x = " + d() + "; if x > 5 { " + d() + " } else { " + d() + " }", "dice-in-branches"
	case 12:
		return "[" + d() + ", " + d() + ", {'k': " + d() + "}]", "dice-in-containers"
	case 13:
		return "func f(n) { if n < 1 { return 0 }; d6 + f(n-1) }; f(4) + 2c8 + 3a9", "recursion"
	case 14:
		return "func draw(n) { return [1..30].randSize(n) }; [draw(10), d1000000, draw(3)]", "array-random-in-function"
	case 15:
		return "&deck = [1..30].shuffle(); &pick = [1..1000].rand(); [deck, pick, d1000000]", "array-random-in-computed"
	case 16:
		return "`{[1..40].shuffle()}|{% xs = [1..50]; xs.rand() %}|{d1000}`", "array-random-in-template"
	case 17, 18:
		// host-global computed values shared by every VM of the process
		return r.Pick([]string{"全局伤害 + d20", "[全局伤害, 全局牌, d1000]", "func g() { 全局伤害 }; g() + 全局伤害", "&c = 全局伤害 * 2; c + 全局检定"}), "host-global-computed"
	default:
		return "xs = [5,4,3,2,1,9,8,7,6]; func sh() { xs.shuffle(); xs }; [sh(), xs.rand()]", "array-random-in-function"
	}
}

// host globals: computed values served through GlobalValueLoadFunc. The same value objects are
// handed to every context of the process (as a host with global variables does).
var c06Globals = map[string]*ds.VMValue{
	"全局伤害": ds.NewComputedVal("3d1000000"),
	"全局牌":  ds.NewComputedVal("[1..20].shuffle()"),
	"全局检定": ds.NewComputedVal("d100 + 2d6kh1"),
}

var c06Warm sync.Once

func c06InstallGlobals(vm *ds.Context) {
	// the first reader of the shared values is an unseeded context (single-threaded warm-up, so
	// that the lazily compiled code of the shared objects is written exactly once)
	c06Warm.Do(func() {
		w := AllDice().NewVM()
		w.GlobalValueLoadFunc = func(name string) *ds.VMValue { return c06Globals[name] }
		_ = w.Run("全局伤害 + 全局检定; 全局牌")
	})
	vm.GlobalValueLoadFunc = func(name string) *ds.VMValue { return c06Globals[name] }
}

type c06Obs struct {
	err, ret, detail, seed, panicV string
	foreign                        int
}

func c06Run(cfg Cfg, src string, tapOn bool) (o c06Obs) {
	vm := cfg.NewVM()
	c06InstallGlobals(vm)
	var tap *hook.Monitor
	if tapOn {
		tap = &hook.Monitor{}
		root := vm.RandSrc
		tap.OnRoll = func(s *xrand.PCGSource, sides ds.IntType, mode int, result ds.IntType, family string) {
			if s != root {
				o.foreign++
			}
		}
		hook.Set(tap)
		defer hook.Set(nil)
	}
	var err error
	pv, _ := fw.Guard(func() { err = vm.Run(src) })
	if pv != nil {
		o.panicV = fmt.Sprint(pv)
		return
	}
	if err != nil {
		o.err = firstLine(err.Error())
	} else {
		o.ret = Canon(vm.Ret)
		fw.Guard(func() { o.detail = vm.GetDetailText() })
	}
	o.seed = seedOf(vm)
	return
}

// perturb starts background activity on other contexts and on the global generators.
func perturb(stop *int32, wg *sync.WaitGroup, seed uint64) {
	for g := 0; g < 3; g++ {
		wg.Add(1)
		go func(g int) {
			defer wg.Done()
			i := uint64(0)
			for atomic.LoadInt32(stop) == 0 {
				i++
				switch g {
				case 0: // unseeded VM rolling every family and reading the host globals
					vm := AllDice().NewVM()
					c06InstallGlobals(vm)
					_ = vm.Run("3d6 + b2 + f + 2a8 + 2c8; xs=[1,2,3]; xs.shuffle(); xs.rand(); 全局伤害 + 全局检定; 全局牌")
				case 1: // seeded VM with another seed
					c := AllDice()
					c.Seed = seed + i
					vm := c.NewVM()
					_ = vm.Run("10d100 + 4c8")
				default: // direct use of the global sources; host-side values made and then overwritten in place
					_ = ds.Roll(nil, 100, 0)
					_ = xrand.Intn(1000)
					hv := ds.NewIntVal(ds.IntType(i % 300))
					_ = json.Unmarshal([]byte(`{"t":0,"v":57}`), hv) // "make a default, then load the saved value into it"
					hw := ds.NewIntVal(ds.IntType(i % 7))
					hw.Value = ds.IntType(1000 + i%9)
					hs := ds.NewStrVal("")
					hs.Value = "host text"
					hf := ds.NewFloatVal(0)
					hf.Value = 2.75
				}
			}
		}(g)
	}
}

func c06N(tier string) int {
	if tier == "thorough" {
		return 200000
	}
	return 9000
}

func c06Case(w *fw.W, idx int, r *fw.Rand) {
	src, fam := c06Program(r)
	cfg := AllDice()
	cfg.Seed = r.U64() | 1
	cfg.OpLimit = 30000
	if r.P(1, 3) {
		cfg.DefSide = r.Pick([]string{"20", "d4 + 2", "面数 ?? 50"})
	}
	if r.P(1, 5) {
		cfg.SeedLen = fw.PickT(r, []int{1, 4, 8, 15, 17, 32})
	}
	desc := fmt.Sprintf("cfg=%s src=%q", cfg, src)
	w.Begin(idx, desc)

	// quiet phase: provenance tap + global generator snapshot
	g0 := string(ds.VerifGlobalRandState())
	a := c06Run(cfg, src, true)
	g1 := string(ds.VerifGlobalRandState())
	w.Eval(1)
	w.Count("programs", 1)
	w.Count("family_"+fam, 1)
	if a.panicV != "" {
		w.Violate(idx, "panic", "seeded|panic", desc, a.panicV, nil)
		return
	}
	if a.foreign > 0 {
		w.Violate(idx, "seeded", "seeded|foreign-source|"+fam, desc, fmt.Sprintf("%d dice of a seeded evaluation were drawn from a generator that is not the context's", a.foreign), nil)
	}
	if g0 != g1 {
		w.Violate(idx, "seeded", "seeded|global-touched|"+fam, desc, "the package-level generator state changed during a seeded evaluation", nil)
	}
	// replays under interference
	var stop int32
	var wg sync.WaitGroup
	perturb(&stop, &wg, cfg.Seed)
	reps := []c06Obs{c06Run(cfg, src, false), c06Run(cfg, src, false), c06Run(cfg, src, false)}
	atomic.StoreInt32(&stop, 1)
	wg.Wait()
	w.Eval(3)
	for i, b := range reps {
		field := ""
		switch {
		case b.panicV != "":
			field = "panic"
		case a.err != b.err:
			field = "error"
		case a.ret != b.ret:
			field = "ret"
		case a.detail != b.detail:
			field = "detail"
		case a.seed != b.seed:
			field = "final-state"
		}
		if field != "" {
			w.Violate(idx, "seeded", "seeded|replay|"+field+"|"+fam, desc, fmt.Sprintf("replay %d with the same seed differs in %s:\n first  %+v\n replay %+v", i+1, field, a, b), nil)
			break
		}
	}
	w.Count("replays", 3)
	// resumption: P1 then P2 on A; P2 alone on a context seeded with the captured state
	if a.err == "" {
		p1, p2 := src, gen.DiceProgram(r)
		if fam == "shuffle" || fam == "rand" || fam == "randSize" {
			p2 = "ys = [1,2,3,4,5,6,7]; ys.shuffle(); [ys, " + p2 + "]"
		}
		vmA := cfg.NewVM()
		c06InstallGlobals(vmA)
		fw.Guard(func() { _ = vmA.Run(p1) })
		cap1, _ := vmA.GetCurSeed()
		var ra, rb c06Obs
		run2 := func(vm *ds.Context) (o c06Obs) {
			var err error
			pv, _ := fw.Guard(func() { err = vm.Run(p2) })
			if pv != nil {
				o.panicV = fmt.Sprint(pv)
				return
			}
			if err != nil {
				o.err = firstLine(err.Error())
			} else {
				o.ret = Canon(vm.Ret)
				fw.Guard(func() { o.detail = vm.GetDetailText() })
			}
			o.seed = seedOf(vm)
			return
		}
		ra = run2(vmA)
		vmB := &ds.Context{Seed: cap1}
		vmB.Init()
		cfg.Apply(vmB)
		c06InstallGlobals(vmB)
		// variables of P1 that P2 does not use are irrelevant; P2 is self-contained
		rb = run2(vmB)
		w.Eval(2)
		w.Count("resumptions", 1)
		if ra.err == "" && (ra.ret != rb.ret || ra.detail != rb.detail || ra.seed != rb.seed || rb.err != "") {
			w.Violate(idx, "seeded", "seeded|resume|"+fam, desc, fmt.Sprintf("a context seeded with the captured state does not continue the sequence: p2=%q\n original %+v\n resumed  %+v", p2, ra, rb), nil)
		}
	}
	if a.err == "" {
		w.Note(fw.Hash64(desc))
	}
	if idx%900 == 0 {
		w.Sample(map[string]any{"family": fam, "cfg": cfg.String(), "src": trunc(src, 160), "ret": trunc(a.ret, 80)})
	}
}

// printing must be reproducible too (a dict's string form used to follow Go's map order)
func c06Printing(w *fw.W, idx int, r *fw.Rand) {
	src := r.Pick([]string{"toStr({'k':1,'j':2,'a':3,'z':4})", "`{ {'b':1,'a':[1,{'y':1,'x':2}],'c':3} }`", "x = {'q':d6,'p':d6,'o':d6}; x", "{'k':1,'j':2,'a':3}.keys()", "{'k':1,'j':2,'a':3}.values()", "{'k':1,'j':2,'a':3}.items()", "dir([])", "dir({})"})
	cfg := AllDice()
	cfg.Seed = 77
	first := ""
	for i := 0; i < 48; i++ {
		vm := cfg.NewVM()
		var s string
		fw.Guard(func() {
			if vm.Run(src) == nil {
				s = vm.Ret.ToString() + " | " + vm.GetDetailText()
			}
		})
		if i == 0 {
			first = s
		} else if s != first {
			w.Violate(idx, "seeded", "seeded|printing", src, fmt.Sprintf("the same seeded program printed %q and then %q", first, s), nil)
			break
		}
	}
	w.Eval(48)
	w.Count("printing_cases", 1)
	w.Note(fw.Hash64("print", src, fmt.Sprint(idx)))
}

func init() {
	fw.Register(&fw.Prop{
		ID:      "C06",
		AsLimit: true,
		NCases:  c06N,
		Setup:   func(w *fw.W) { c06InstallGlobals(ds.NewVM()) }, // warm the shared host globals before any snapshot
		Run: func(w *fw.W, idx int, r *fw.Rand) {
			if idx%25 == 24 {
				c06Printing(w, idx, r)
				return
			}
			c06Case(w, idx, r)
		},
		Floors: func(tier string) map[string]int64 {
			return map[string]int64{"programs": 5000, "replays": 15000, "resumptions": 3000, "family_shuffle": 200, "family_rand": 200, "family_randSize": 200}
		},
		MaxShards:   8,
		Rule:        "case = dice-using program (14 shapes: every family, dice in functions / computed values / templates / loops / branches / containers, default-sides dice with DefaultDiceSideExpr, shuffle/rand/randSize, recursion) × seed. Quiet run with the roll tap (every die's generator must be the context's) and a snapshot of the package-level generator (must not move); then three replays with the same seed while perturbers run on other goroutines (unseeded VMs rolling every family and shuffling, differently seeded VMs, direct Roll(nil) and x/exp/rand global draws): Ret, detail text and final generator state must be identical. Resumption: GetCurSeed after P1 installed in a fresh context must reproduce P2 exactly. 4%: the same seeded program must print identically 48 times. distinct = hash(program, configuration) Also 'huge-sides': seeded dice with face counts between 2^62 and 2^63 that are not powers of two (rejection zone ≈ 1/3) in arrays, functions, computed values and loops.",
		Assumptions: []string{"randomness that bypasses Roll (array methods) is invisible to the tap and is caught by replay inequality"},
	})
}

var _ = strings.TrimSpace
