package props

import (
	"fmt"
	"math"
	"math/big"
	"math/bits"
	"runtime"
	"strconv"
	"strings"
	"sync"

	ds "github.com/sealdice/dicescript"
	"golang.org/x/exp/rand"

	"verif/internal/fw"
	"verif/internal/hook"
)

// C05 — dice are unbiased for every number of sides.

// regularized upper incomplete gamma Q(a,x)
func gammaQ(a, x float64) float64 {
	if x <= 0 {
		return 1
	}
	if x < a+1 {
		sum, del, ap := 1/a, 1/a, a
		for i := 0; i < 100000; i++ {
			ap++
			del *= x / ap
			sum += del
			if math.Abs(del) < math.Abs(sum)*1e-16 {
				break
			}
		}
		lg, _ := math.Lgamma(a)
		return 1 - sum*math.Exp(-x+a*math.Log(x)-lg)
	}
	b := x + 1 - a
	c := 1 / 1e-300
	d := 1 / b
	h := d
	for i := 1; i < 100000; i++ {
		an := -float64(i) * (float64(i) - a)
		b += 2
		d = an*d + b
		if math.Abs(d) < 1e-300 {
			d = 1e-300
		}
		c = b + an/c
		if math.Abs(c) < 1e-300 {
			c = 1e-300
		}
		d = 1 / d
		del := d * c
		h *= del
		if math.Abs(del-1) < 1e-16 {
			break
		}
	}
	lg, _ := math.Lgamma(a)
	return math.Exp(-x+a*math.Log(x)-lg) * h
}

func chi2p(obs, exp []float64) (float64, float64) {
	var x float64
	for i := range obs {
		d := obs[i] - exp[i]
		x += d * d / exp[i]
	}
	return x, gammaQ(float64(len(obs)-1)/2, x/2)
}

var c05Small = func() []int64 {
	var s []int64
	for i := int64(1); i <= 33; i++ {
		s = append(s, i)
	}
	return append(s, 37, 49, 63, 64, 65, 100, 127, 128, 129, 1000)
}()

// 1.5·2^j for every j: the sizes where a sampler that silently works on fewer bits than the
// size needs (e.g. the high 32 bits for n < 2^31) puts 3/4 instead of 2/3 of the mass on the
// lower two thirds
var c05Mid = func() []int64 {
	var s []int64
	for j := uint(6); j <= 61; j++ {
		s = append(s, 3<<j)
	}
	return s
}()

var c05Large = []int64{(1 << 31) - 1, (1 << 31) + 1, (1 << 32) - 1, (1 << 32) + 1, 3 << 40, (1 << 62) - 1, (1 << 62) + 1, 3 << 61, 5 << 60, 7 << 60, (1 << 63) - 2, math.MaxInt64 - 1, 1 << 62, 1 << 40, 6 << 60, (1 << 63) - (1 << 61)}

var c05Pair = []int64{2, 3, 6, 10}

type c05Test struct {
	kind string // cells, buckets, pair1, pair2, modes, consume
	n    int64
	rep  int
}

func c05Plan(tier string) []c05Test {
	reps := 16
	if tier == "thorough" {
		reps = 160
	}
	var t []c05Test
	for r := 0; r < reps; r++ {
		for _, n := range c05Small {
			t = append(t, c05Test{"cells", n, r})
		}
		for _, n := range c05Large {
			t = append(t, c05Test{"buckets", n, r})
			t = append(t, c05Test{"consume", n, r})
		}
		if r%4 == 0 {
			for _, n := range c05Mid {
				t = append(t, c05Test{"buckets", n, r})
			}
		}
		if r%4 == 1 {
			t = append(t, c05Test{"vmpair", 6, r}, c05Test{"vmpair", 10, r})
		}
		if r%4 == 2 {
			t = append(t, c05Test{"vmseq", 6, r}, c05Test{"vmseq", 20, r}, c05Test{"vmseq", 100, r})
		}
		if r%8 == 3 {
			t = append(t, c05Test{"fallback", 1 << 62, r})
		}
		if r%4 == 3 {
			for _, n := range []int64{8, 32, 6, 128, 1024, 1 << 40, 100} {
				t = append(t, c05Test{"pool", n, r})
			}
		}
		for _, n := range c05Pair {
			t = append(t, c05Test{"pair1", n, r}, c05Test{"pair2", n, r})
		}
		for _, n := range []int64{6, 100, 3 << 61} {
			t = append(t, c05Test{"consume", n, r})
		}
	}
	for _, n := range append(append([]int64{}, c05Small...), c05Large...) {
		t = append(t, c05Test{"modes", n, 0})
	}
	// a die written in a script is the die Roll is asked for: exact agreement with Roll on a clone
	// of the generator, for every large size (the VM must not lose a single unit of the size)
	for _, n := range append(append([]int64{}, c05Large...), 9007199254740993, 9007199254740995, 9223372036854775806, 9223372036854775295, 1<<53+1, 1<<60+1, 6, 100) {
		t = append(t, c05Test{"vmexact", n, 0})
	}
	return t
}

// c05Stat runs one statistical test and returns (p, out-of-range witness).
func c05Stat(t c05Test, draws int, seed uint64) (float64, string) {
	src := &rand.PCGSource{}
	src.Seed(seed)
	n := t.n
	roll := func() int64 { return int64(ds.Roll(src, ds.IntType(n), 0)) }
	switch t.kind {
	case "cells":
		if n == 1 {
			for i := 0; i < draws/100; i++ {
				if r := roll(); r != 1 {
					return 1, fmt.Sprintf("d1 returned %d", r)
				}
			}
			return 1, ""
		}
		obs := make([]float64, n)
		exp := make([]float64, n)
		for i := range exp {
			exp[i] = float64(draws) / float64(n)
		}
		for i := 0; i < draws; i++ {
			r := roll()
			if r < 1 || r > n {
				return 0, fmt.Sprintf("Roll(%d) returned %d", n, r)
			}
			obs[r-1]++
		}
		_, p := chi2p(obs, exp)
		return p, ""
	case "buckets":
		const B = 32
		obs := make([]float64, B)
		exp := make([]float64, B)
		bn := big.NewInt(n)
		ceilDiv := func(a *big.Int, b int64) *big.Int {
			q, m := new(big.Int).DivMod(a, big.NewInt(b), new(big.Int))
			if m.Sign() != 0 {
				q.Add(q, big.NewInt(1))
			}
			return q
		}
		for b := 0; b < B; b++ {
			lo := ceilDiv(new(big.Int).Mul(big.NewInt(int64(b)), bn), B)
			hi := ceilDiv(new(big.Int).Mul(big.NewInt(int64(b+1)), bn), B)
			cnt := new(big.Int).Sub(hi, lo)
			fr, _ := new(big.Rat).SetFrac(cnt, bn).Float64()
			exp[b] = fr * float64(draws)
		}
		for i := 0; i < draws; i++ {
			r := roll()
			if r < 1 || r > n {
				return 0, fmt.Sprintf("Roll(%d) returned %d", n, r)
			}
			// bucket = floor((r-1)*B/n) with 128-bit arithmetic
			hi, lo := mul64(uint64(r-1), B)
			q := div128(hi, lo, uint64(n))
			obs[q]++
		}
		_, p := chi2p(obs, exp)
		return p, ""
	case "vmpair":
		// successive dice of one seeded context, rolled at top level, inside a function, inside
		// a computed value and by RunExpr, must be independent draws of the same generator
		vm := Cfg{Seed: seed | 1}.NewVM()
		if err := vm.Run(fmt.Sprintf("func fd() { d%d }; &cd = d%d; 0", n, n)); err != nil {
			return 0, "setup failed: " + err.Error()
		}
		cells := int(n * n)
		obs := make([]float64, cells)
		exp := make([]float64, cells)
		cnt := 0
		prev := int64(0)
		rounds := draws / 40
		// provenance: every die of this seeded context must come from the context's own generator,
		// also the very first one when it is rolled inside a function or computed value
		ctxSrc := vm.RandSrc
		foreign := ""
		hook.Set(&hook.Monitor{OnRoll: func(src *rand.PCGSource, sides ds.IntType, mode int, result ds.IntType, family string) {
			if src != ctxSrc {
				foreign = fmt.Sprintf("a %s die of a seeded context was not drawn from the context's generator (source %p, context %p)", family, src, ctxSrc)
			}
		}})
		defer hook.Set(nil)
		order := []string{"[d%[1]d, fd(), cd, d%[1]d, fd(), cd]", "[fd(), d%[1]d, cd, fd(), cd, d%[1]d]", "[cd, fd(), d%[1]d, cd, d%[1]d, fd()]"}[seed%3]
		for i := 0; i < rounds; i++ {
			if i == 1 && foreign != "" {
				return 0, foreign
			}
			if err := vm.Run(fmt.Sprintf(order, n)); err != nil {
				return 0, "run failed: " + err.Error()
			}
			arr, ok := vm.Ret.ReadArray()
			if !ok || len(arr.List) != 6 {
				return 0, "unexpected result " + vm.Ret.ToString()
			}
			for _, e := range arr.List {
				v, _ := e.ReadInt()
				r := int64(v)
				if r < 1 || r > n {
					return 0, fmt.Sprintf("d%d through the VM returned %d", n, r)
				}
				if prev != 0 {
					obs[(prev-1)*n+(r-1)]++
					cnt++
				}
				prev = r
			}
		}
		for i := range exp {
			exp[i] = float64(cnt) / float64(cells)
		}
		_, p := chi2p(obs, exp)
		return p, ""
	case "vmseq":
		// a plain die evaluated after other dice terms of the same program (every modifier, every
		// family, nested dice, dice in containers and earlier statements) is still a fair die
		vc := AllDice()
		vc.Seed = seed | 1
		vm := vc.NewVM()
		pr := fw.NewRand(seed ^ 0x5eed)
		pres := []string{"d6max2", "d1000min600", "d20max3", "3d6kh1", "4d6kl2", "2d10dh1", "3d8dl1", "d4max1", "2d1000min999", "d(d4max1)", "(d2max1)d6", "b2", "p1", "f", "3a8", "2c8", "d6min6", "5d1min1", "d%dmax1", "d%dmin%d"}
		obs := make([]float64, n)
		exp := make([]float64, n)
		rounds := draws / 8
		for i := 0; i < rounds; i++ {
			pre := pres[pr.Intn(len(pres))]
			if strings.Contains(pre, "%d") {
				pre = strings.ReplaceAll(pre, "%d", fmt.Sprint(n))
			}
			var prog string
			switch pr.Intn(5) {
			case 0:
				prog = fmt.Sprintf("%s * 0 + d%d", pre, n)
			case 1:
				prog = fmt.Sprintf("[%s, d%d][1]", pre, n)
			case 2:
				prog = fmt.Sprintf("%s; d%d", pre, n)
			case 3:
				prog = fmt.Sprintf("x = %s; 1d%d", pre, n)
			default:
				prog = fmt.Sprintf("%s + 0 * %s + d%d - %s", pre, pre, n, pre)
				if err := vm.Run(fmt.Sprintf("[%s, %s, d%d][2]", pre, pre, n)); err != nil {
					return 0, "run failed: " + err.Error()
				}
				prog = ""
			}
			if prog != "" {
				if err := vm.Run(prog); err != nil {
					return 0, "run of " + prog + " failed: " + err.Error()
				}
			}
			v, ok := vm.Ret.ReadInt()
			if !ok || int64(v) < 1 || int64(v) > n {
				return 0, fmt.Sprintf("plain d%d after %q returned %s", n, pre, vm.Ret.ToString())
			}
			obs[v-1]++
		}
		for i := range exp {
			exp[i] = float64(rounds) / float64(n)
		}
		_, p := chi2p(obs, exp)
		return p, ""
	case "pool":
		// every die of a pool XdN is a fair die, whatever its position in the pool: the dice
		// listed in the process text are tallied per position class (first, middle, last third
		// and the very last die)
		vc := Cfg{Seed: seed | 1}
		vm := vc.NewVM()
		pr := fw.NewRand(seed ^ 0x9001)
		cells := n
		if n > 128 {
			cells = 32
		}
		obs := make([][]float64, 4)
		for i := range obs {
			obs[i] = make([]float64, cells)
		}
		cnt := make([]float64, 4)
		rounds := draws / 40
		for i := 0; i < rounds; i++ {
			x := []int{2, 3, 10, 13, 22, 23, 30, 64}[pr.Intn(8)]
			if err := vm.Run(fmt.Sprintf("%dd%d", x, n)); err != nil {
				return 0, "run failed: " + err.Error()
			}
			if len(vm.DetailSpans) == 0 {
				return 0, "no detail span"
			}
			parts := strings.Split(vm.DetailSpans[0].Text, "+")
			if len(parts) != x {
				continue // elided detail
			}
			for pos, ps := range parts {
				v, err := strconv.ParseInt(ps, 10, 64)
				if err != nil || v < 1 || v > n {
					return 0, fmt.Sprintf("die #%d of %dd%d shows %q", pos+1, x, n, ps)
				}
				cls := pos * 3 / x
				var cell int64
				if n > 128 {
					hi, lo := mul64(uint64(v-1), uint64(cells))
					cell = int64(div128(hi, lo, uint64(n)))
				} else {
					cell = v - 1
				}
				obs[cls][cell]++
				cnt[cls]++
				if pos == x-1 {
					obs[3][cell]++
					cnt[3]++
				}
			}
		}
		pmin := 1.0
		for cls := range obs {
			exp := make([]float64, cells)
			for i := range exp {
				exp[i] = cnt[cls] / float64(cells)
			}
			if cnt[cls] < 100 {
				continue
			}
			if _, p := chi2p(obs[cls], exp); p < pmin {
				pmin = p
			}
		}
		// four tests: Bonferroni
		return math.Min(1, pmin*4), ""
	case "pair1", "pair2":
		lag := 1
		if t.kind == "pair2" {
			lag = 2
		}
		cells := int(n * n)
		obs := make([]float64, cells)
		exp := make([]float64, cells)
		prev := make([]int64, lag)
		for i := range prev {
			prev[i] = roll()
		}
		cnt := 0
		for i := 0; i < draws; i++ {
			r := roll()
			if r < 1 || r > n {
				return 0, fmt.Sprintf("Roll(%d) returned %d", n, r)
			}
			p := prev[i%lag]
			obs[(p-1)*n+(r-1)]++
			prev[i%lag] = r
			cnt++
		}
		for i := range exp {
			exp[i] = float64(cnt) / float64(cells)
		}
		_, p := chi2p(obs, exp)
		return p, ""
	}
	return 1, ""
}

func mul64(a, b uint64) (hi, lo uint64) {
	const mask32 = 1<<32 - 1
	a0, a1 := a&mask32, a>>32
	b0, b1 := b&mask32, b>>32
	w0 := a0 * b0
	t := a1*b0 + w0>>32
	w1 := t & mask32
	w2 := t >> 32
	w1 += a0 * b1
	hi = a1*b1 + w2 + w1>>32
	lo = a * b
	return
}

func div128(hi, lo, d uint64) uint64 {
	// hi < d is guaranteed here (quotient < 32)
	q, _ := bits.Div64(hi, lo, d)
	return q
}

func c05Draws(tier, kind string) int {
	switch kind {
	case "vmpair", "vmseq", "pool":
		if tier == "thorough" {
			return 400000
		}
		return 80000
	case "cells", "pair1", "pair2":
		if tier == "thorough" {
			return 5000000
		}
		return 1000000
	case "buckets":
		if tier == "thorough" {
			return 1000000
		}
		return 120000
	}
	return 100000
}

const c05Alpha = 1e-9

func c05Case(w *fw.W, idx int, r *fw.Rand) {
	plan := c05Plan(w.Tier)
	t := plan[idx]
	desc := fmt.Sprintf("%s n=%d rep=%d", t.kind, t.n, t.rep)
	w.Begin(idx, desc)
	switch t.kind {
	case "modes":
		src := &rand.PCGSource{}
		src.Seed(r.U64())
		before, _ := src.MarshalBinary()
		n := ds.IntType(t.n)
		bad := ""
		if v := ds.Roll(src, n, -1); v != 1 {
			bad = fmt.Sprintf("min-mode Roll(%d) = %d, want 1", n, v)
		}
		if v := ds.Roll(src, n, 1); v != n {
			bad = fmt.Sprintf("max-mode Roll(%d) = %d, want %d", n, v, n)
		}
		if v := ds.Roll(src, 0, 0); v != 0 {
			bad = fmt.Sprintf("Roll(0) = %d, want 0", v)
		}
		after, _ := src.MarshalBinary()
		if string(before) != string(after) {
			bad = "min/max mode consumed randomness"
		}
		for i := 0; i < 2000; i++ {
			if v := ds.Roll(src, n, 0); v < 1 || v > n {
				bad = fmt.Sprintf("Roll(%d) returned %d", n, v)
			}
		}
		if bad != "" {
			w.Violate(idx, "dice-bias", "roll|modes", desc, bad, nil)
		}
		w.Eval(2003)
		w.Count("mode_checks", 1)
		w.Note(fw.Hash64(desc))
		return
	case "vmexact":
		bad := ""
		for k := 0; k < 300 && bad == ""; k++ {
			vm := Cfg{Seed: r.U64() | 1}.NewVM()
			clone := *vm.RandSrc
			form := []string{"d%d", "1d%d", "d(%d)", "d(%d+0)"}[k%4]
			if err := vm.Run(fmt.Sprintf(form, t.n)); err != nil {
				bad = fmt.Sprintf("%s rejected: %s", fmt.Sprintf(form, t.n), firstLine(err.Error()))
				break
			}
			got, _ := vm.Ret.ReadInt()
			want := ds.Roll(&clone, ds.IntType(t.n), 0)
			if got != want {
				bad = fmt.Sprintf("%s = %d, but Roll(generator, %d) from the same generator state = %d", fmt.Sprintf(form, t.n), got, t.n, want)
			}
		}
		// pools: K dice of a pool are K successive draws of the same sampler (keep-highest-one /
		// keep-lowest-one so that the total stays inside the integer range for every size)
		for k := 0; k < 300 && bad == ""; k++ {
			vm := Cfg{Seed: r.U64() | 1}.NewVM()
			clone := *vm.RandSrc
			cnt := []int{2, 3, 5, 2, 8}[k%5]
			hi := k%2 == 0
			src := fmt.Sprintf("%dd%dk%s1", cnt, t.n, map[bool]string{true: "h", false: "l"}[hi])
			if err := vm.Run(src); err != nil {
				bad = fmt.Sprintf("%s rejected: %s", src, firstLine(err.Error()))
				break
			}
			got, _ := vm.Ret.ReadInt()
			var want ds.IntType
			for i := 0; i < cnt; i++ {
				v := ds.Roll(&clone, ds.IntType(t.n), 0)
				if i == 0 || (hi && v > want) || (!hi && v < want) {
					want = v
				}
			}
			if got != want {
				bad = fmt.Sprintf("%s = %d, but %d successive Roll(generator, %d) from the same generator state give %d", src, got, cnt, t.n, want)
			}
		}
		if bad != "" {
			w.Violate(idx, "dice-bias", "roll|vm-exact", desc, bad, nil)
		}
		w.Eval(600)
		w.Count("vmexact_checks", 1)
		w.Note(fw.Hash64(desc))
		return
	case "fallback":
		// contexts without a seed draw from the package generator: dice rolled by different
		// goroutines at the same moment (and around garbage collections, which empty caches)
		// are still successive draws of ONE generator, so on a 2^62-sided die no face may ever
		// come up twice (chance < 1e-9 for the ~80000 dice of a case).
		seen := map[int64]int{}
		const G, K, rounds = 16, 100, 12
		dup := ""
		for round := 0; round < rounds && dup == ""; round++ {
			if round%2 == 0 {
				runtime.GC()
				runtime.GC()
			}
			res := make([][]int64, G)
			var wg sync.WaitGroup
			start := make(chan struct{})
			for g := 0; g < G; g++ {
				wg.Add(1)
				go func(g int) {
					defer wg.Done()
					var vm *ds.Context
					if g%2 == 1 {
						vm = Cfg{}.NewVM()
						if g%4 == 1 {
							// a host that records the seed of every evaluation for replay
							_, _ = vm.GetCurSeed()
						}
					}
					<-start
					for k := 0; k < K; k++ {
						if vm != nil {
							if g%8 == 3 {
								// other unseeded work of the same host in between: array random methods
								_ = vm.Run("xs = [1,2,3,4,5,6,7,8]; xs.shuffle(); xs.rand()")
							}
							if err := vm.Run(fmt.Sprintf("d%d + d%d * 0", t.n, t.n)); err == nil {
								v, _ := vm.Ret.ReadInt()
								res[g] = append(res[g], int64(v))
							}
						} else {
							res[g] = append(res[g], int64(ds.Roll(nil, ds.IntType(t.n), 0)))
						}
					}
				}(g)
			}
			close(start)
			wg.Wait()
			for g := range res {
				for _, v := range res[g] {
					if v < 1 || v > t.n {
						dup = fmt.Sprintf("unseeded d%d returned %d", t.n, v)
					}
					if og, ok := seen[v]; ok && dup == "" {
						dup = fmt.Sprintf("face %d of a 2^62-sided die came up twice (goroutine %d and goroutine %d, round %d): unseeded dice of concurrent contexts are not independent draws", v, og, g, round)
					}
					seen[v] = g
				}
			}
		}
		// the same host, one request after the other: new context, record the seed, roll
		for k := 0; k < 200 && dup == ""; k++ {
			vm := Cfg{}.NewVM()
			if k%2 == 0 {
				_, _ = vm.GetCurSeed()
			}
			if err := vm.Run(fmt.Sprintf("d%d", t.n)); err == nil {
				v, _ := vm.Ret.ReadInt()
				if og, ok := seen[int64(v)]; ok {
					dup = fmt.Sprintf("face %d of a 2^62-sided die came up twice (earlier goroutine %d, now sequential request %d): unseeded contexts do not draw successively from the package generator", v, og, k)
				}
				seen[int64(v)] = -k
			}
		}
		if dup != "" {
			w.Violate(idx, "dice-bias", "roll|fallback-repeats", desc, dup, nil)
		}
		w.Eval(int64(len(seen)))
		w.Count("fallback_dice", int64(len(seen)))
		w.Count("fallback_checks", 1)
		w.Note(fw.Hash64(desc))
		return
	case "consume":
		// words consumed per roll: step a clone until the states meet
		src := &rand.PCGSource{}
		src.Seed(r.U64())
		N := 40000
		extra := 0
		for i := 0; i < N; i++ {
			clone := *src
			v := ds.Roll(src, ds.IntType(t.n), 0)
			if v < 1 || int64(v) > t.n {
				w.Violate(idx, "dice-bias", "roll|range", desc, fmt.Sprintf("Roll(%d) returned %d", t.n, v), nil)
				return
			}
			want, _ := src.MarshalBinary()
			k := 0
			for ; k <= 200; k++ {
				cur, _ := clone.MarshalBinary()
				if string(cur) == string(want) {
					break
				}
				clone.Uint64()
			}
			if k == 0 {
				w.Violate(idx, "dice-bias", "roll|no-draw", desc, "a random-mode roll consumed no word from the generator: successive dice are not independent draws", nil)
				return
			}
			if k > 200 {
				w.Violate(idx, "dice-bias", "roll|foreign-state", desc, "generator state after Roll is not reachable by drawing from the state before", nil)
				return
			}
			extra += k - 1
		}
		// any unbiased scheme drawing 64-bit words must reject at least (2^64 mod n)/2^64 of them
		two64 := new(big.Int).Lsh(big.NewInt(1), 64)
		rem := new(big.Int).Mod(two64, big.NewInt(t.n))
		pmin, _ := new(big.Rat).SetFrac(rem, two64).Float64()
		rate := float64(extra) / float64(N)
		// expected extra words per roll for rejection prob q is q/(1-q) >= q; allow 8 sigma
		sigma := math.Sqrt(pmin*(1-pmin)/float64(N)) + 1e-9
		if rate < pmin-8*sigma-1e-6 {
			w.Violate(idx, "dice-bias", "roll|too-few-rejections", desc, fmt.Sprintf("extra words per roll %.5f but an unbiased sampler must reject at least %.5f of the 64-bit words for n=%d", rate, pmin, t.n), nil)
		}
		if rate > 1.5 {
			w.Violate(idx, "dice-bias", "roll|too-many-draws", desc, fmt.Sprintf("extra words per roll %.3f", rate), nil)
		}
		w.Eval(int64(N))
		w.Count("consume_checks", 1)
		w.Note(fw.Hash64(desc))
		return
	}
	draws := c05Draws(w.Tier, t.kind)
	seed := r.U64()
	p, oor := c05Stat(t, draws, seed)
	w.Eval(int64(draws))
	w.Count("stat_tests", 1)
	w.Count("draws", int64(draws))
	if oor != "" {
		w.Violate(idx, "dice-bias", "roll|range", desc, oor, nil)
		return
	}
	if p < c05Alpha {
		// replication on an independent, 4x larger sample
		p2, _ := c05Stat(t, 4*draws, r.U64())
		w.Count("replications", 1)
		if p2 < c05Alpha {
			w.Violate(idx, "dice-bias", "roll|"+t.kind, desc, fmt.Sprintf("goodness-of-fit p=%.3g on %d draws (seed %d), replicated with p=%.3g on %d draws", p, draws, seed, p2, 4*draws), nil)
		} else {
			w.Inconclusive(fmt.Sprintf("%s: p=%.3g not replicated (p2=%.3g)", desc, p, p2))
		}
	}
	if p < 1e-4 {
		w.Count("p_below_1e-4", 1)
	}
	w.Note(fw.Hash64(desc))
	if idx%40 == 0 {
		w.Sample(map[string]any{"test": t.kind, "n": t.n, "draws": draws, "seed": seed, "p": p})
	}
}

func init() {
	fw.Register(&fw.Prop{
		ID:       "C05",
		HangWall: 120,
		HangCPU:  600, // the fallback family runs 16 goroutines at once
		NCases:   func(tier string) int { return len(c05Plan(tier)) },
		Run:      c05Case,
		Floors: func(tier string) map[string]int64 {
			return map[string]int64{"stat_tests": 150, "mode_checks": 50, "consume_checks": 40, "draws": 30000000}
		},
		Rule:        "tests: exact-cell chi-square for n in 1..33,37,49,63,64,65,100,127,128,129,1000; 32 quantile buckets with exact expected masses for 16 large sizes (2^31±1, 2^32±1, 3·2^40, 2^62±1, 3·2^61, 5·2^60, 7·2^60, 2^63−2, MaxInt−1, …); lag-1 and lag-2 pair tables for n in {2,3,6,10}; words consumed per roll vs the minimal rejection rate of any unbiased 64-bit sampler; min/max/zero modes. Alarm only when p<1e-9 and an independent 4× larger replication also gives p<1e-9. distinct = (test, n, repetition)",
		Assumptions: []string{"sampling resolves relative bias down to ~1e-3 (quick) / 3e-4 (thorough); bias of order 2^-40 for small n is below resolution and not claimed", "_roll32 is unreachable on this 64-bit build"},
	})
}
