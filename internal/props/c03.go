package props

import (
	"fmt"
	"sort"
	"strings"

	ds "github.com/sealdice/dicescript"

	"verif/internal/fw"
	"verif/internal/gen"
)

// C03 — the result belongs to the consumed text (Matched/RestInput contract).
//
// Metamorphic twin: VM-A runs the whole input I; VM-B (same configuration, seed and
// dice-free setup programs) runs Matched alone. Everything observable must agree.

type c03Obs struct {
	err     string
	panicV  string
	matched string
	rest    string
	ret     string
	detail  string
	vars    string
	st      string
	seed    string
	later   string // what the computed values / parameterless functions left in variables do when used afterwards
}

func c03Run(cfg Cfg, setup []string, src string) c03Obs {
	var o c03Obs
	vm := cfg.NewVM()
	log := &StLog{}
	log.Install(vm)
	for _, s := range setup {
		fw.Guard(func() { _ = vm.Run(s) })
	}
	log.Calls = nil
	var err error
	pv, _ := fw.Guard(func() { err = vm.Run(src) })
	if pv != nil {
		o.panicV = fmt.Sprint(pv)
		return o
	}
	if err != nil {
		o.err = err.Error()
		o.vars = CanonVars(vm)
		return o
	}
	o.matched, o.rest = vm.Matched, vm.RestInput
	o.ret = Canon(vm.Ret)
	if pv, _ := fw.Guard(func() { o.detail = vm.GetDetailText() }); pv != nil {
		o.panicV = "GetDetailText: " + fmt.Sprint(pv)
	}
	o.vars = CanonVars(vm)
	o.st = strings.Join(log.Calls, "\n")
	o.seed = seedOf(vm)
	// variable effects include what stored code does later: evaluate every computed value and
	// parameterless function the run left behind (same generator state on both twins)
	var names []string
	vm.Attrs.Range(func(k string, v *ds.VMValue) bool {
		if v == nil {
			return true
		}
		if v.TypeId == ds.VMTypeComputedValue {
			names = append(names, k)
		} else if fd, ok := v.ReadFunctionData(); ok && len(fd.Params) == 0 {
			names = append(names, k+"()")
		}
		return true
	})
	sort.Strings(names)
	var sb strings.Builder
	for _, nm := range names {
		if len(nm) == 0 || strings.ContainsAny(nm, " :'\"") {
			continue
		}
		var e2 error
		pv, _ := fw.Guard(func() { e2 = vm.Run(nm) })
		switch {
		case pv != nil:
			sb.WriteString(nm + " => PANIC " + fmt.Sprint(pv) + "\n")
		case e2 != nil:
			sb.WriteString(nm + " => error\n")
		default:
			d := ""
			fw.Guard(func() { d = vm.GetDetailText() })
			sb.WriteString(nm + " => " + Canon(vm.Ret) + " | " + d + "\n")
		}
	}
	o.later = sb.String()
	return o
}

func c03Input(r *fw.Rand) (string, string) {
	if r.P(1, 150) {
		// text handed back that contains a guarded construct (parentheses, array, call, dict) with
		// something that emits code in front of a deeply nested chain: whatever depth the parser
		// gives up at, nothing of it may stay behind
		n := fw.PickT(r, []int{60, 110, 150, 300, 483, 700, 1200})
		chain := strings.Repeat("(", n) + "1" + strings.Repeat(r.Pick([]string{"*1)", ")", "+x)"}), n)
		head := r.Pick([]string{"3", "2d6 + 1", "x = 4; x", "[1, 2]"})
		mid := r.Pick([]string{" + (a + %s) )", " + ((x = 1) + %s) )", ";\n[a, %s] )", " + f(d6, %s) ]", " + {'k': %s} }", " * (d20 + %s", " + `{d6}{%s}` )"})
		return head + fmt.Sprintf(mid, chain), "deep-tail"
	}
	if r.P(1, 400) {
		// long programs with many instructions per byte, followed by tails of every length: what
		// the compiler accepts must not depend on how much text follows
		unit := r.Pick([]string{"d+", "2d+", "x+", "1+", "f+", "d6+"})
		n := fw.PickT(r, []int{300, 440, 600, 800, 1000})
		m := fw.PickT(r, []int{0, 200, 610, 1200})
		head := strings.Repeat(unit, n) + strings.Repeat("1+", m) + "1"
		tail := " " + strings.Repeat(r.Pick([]string{"x", "理", " r"}), fw.PickT(r, []int{0, 1, 40, 85, 122, 500, 1802, 4000}))
		return head + tail, "dense-long"
	}
	if r.P(1, 40) {
		// a dice operator whose optional count or parameter is written in parentheses, directly
		// followed by text that cannot follow it (an identifier character, a blank and a word, a
		// broken operand): if the operator then falls back to its bare form, nothing of the
		// parenthesised expression may stay behind
		pre := r.Pick([]string{"", "1 + ", "10 + ", "x = ", "[", "2 * ", "d6 - ", "`{", "f("})
		n := 2 + r.Intn(8)
		sub := r.Pick([]string{fmt.Sprintf("(%d)", n), fmt.Sprintf("(%d+1)", n), fmt.Sprintf("(d1+%d)", n), fmt.Sprintf("((%d))", n)})
		op := r.Pick([]string{"b%s", "p%s", "B%s", "P%s", "d%s", "2d%s", "3d6kh%s", "3d6k%s", "4d6dl%s", "d20min%s", "d20max%s", "2a%s", "a%s", "3a8k%s", "3a8m%s", "3a8q%s", "2c%s", "3c8m%s", "%sd6", "%sa8", "%sc8", "f", "4d%sk2"})
		brk := r.Pick([]string{"x", "理", "_", "x1", " x", "9", "e", "k", "q", "m", "(", "[0", ".x", " 理由", "b", "d"})
		return pre + fmt.Sprintf(op, sub) + brk, "paren-count-then-ident"
	}
	var head string
	fam := ""
	switch r.Intn(6) {
	case 0, 1:
		head, fam = gen.ValidProgram(r, 2, r.Bool()), "valid"
	case 2:
		head, fam = gen.DiceProgram(r), "dice"
	case 3:
		head, fam = gen.StmtNest(r, 1+r.Intn(2), false, false), "nest"
	case 4:
		c := gen.Corpus()
		head, fam = c[r.Intn(len(c))], "corpus"
	default:
		head, fam = "^st"+r.Pick([]string{"力量60敏捷70", "力量:60 敏捷=70", "力量+1d4", "力量-=2 敏捷+=3", "&手枪=1d6+2", "属性*2.5:5", "'力量 1':3", "力量60"}), "st"
	}
	if r.P(1, 8) {
		// heads whose last construct can take a continuation (further clause, operand, index, call):
		// the text after it starts like one and then breaks off
		pre := r.Pick([]string{"", "", "a = 0; b = 1; ", "x = [1, 2]; ", "&cv = d6; "})
		last := r.Pick([]string{"0 ? 1", "1 ? 2", "a ? 'x'", "0 ? 1, 0 ? 2", "1 ? 2, 0 ? 3", "b ? 1, a ? 2", "0 || 0", "1 && 0", "a ?? 3", "x", "[1, 2]", "{'k': 1}", "f", "1 + 2", "d6", "x[0]", "-1", "`t{a}`", "'s'", "3 > 2", "cv"})
		op := r.Pick([]string{",", ", ", " ,", "||", " || ", "&&", " && ", "?", " ? ", ":", " : ", "+", " + ", "-", "*", "[", "(", ".", "..", "??", " ?? ", "|", "&", "=", "==", " == ", "<", ",,", ";", "\n"})
		operand := r.Pick([]string{"d20", "2d6", "b", "x", "3", "d100 理由", "[d4]", "f(d6)", "cv", "(d8", "`{d10}`", "'s", "a = d12", "力量",
			"`{ // #EnableDice wod false\n2a5 }`", "`{ // #EnableDice coc false\n1 }`", "`{% // #EnableDice fate true\nf %}", "`{ // #EnableDice wod true\na5 }"})
		if r.P(1, 4) {
			last = r.Pick([]string{"b2", "p3", "a5", "f", "2a5", "3c8"})
		}
		if r.P(1, 5) {
			// code kept for later (computed values, functions) that ends where the tail begins
			last = r.Pick([]string{"&kv = (2)d(3)", "&kv = 2d6", "&kv = d6 + (1)", "&kv = [d4][0]", "&kv = `{d6}`", "func kf() { (2)d(3) }", "func kf() { 2d6 + 1 }", "&kv = 3d6kh(2)", "&kv = b2", "&kv = (1)"})
			op = r.Pick([]string{" ", "  ", "\n", "\t", " \n ", "", ";", " ; "})
			operand = r.Pick([]string{"tail", "理由", "reason d20", "d20", "(", "[1", "'s", "+", "kv", "3"})
		}
		brk := r.Pick([]string{"", " ?", " ? )", " ? 1 :", " :", "(", "[", " 理由", " ? d4", ",", " ? 1, ", ")", "]"})
		return pre + last + op + operand + brk, "continuation"
	}
	var tail string
	switch r.Intn(6) {
	case 0, 1, 2:
		tail = r.Pick(gen.Tails)
	case 3:
		// token-boundary cut of a second valid program
		p := gen.ValidProgram(r, 2, false)
		if len(p) > 0 {
			tail = p[:r.Intn(len(p)+1)]
		}
	case 4:
		tail = r.Pick([]string{" reason text", " 理由", "　全角", " because d20 said so", "测试", " # note", " ,", " 。", " 理由：伤害＞３", " ＝＝ 3", "＞＝2 的时候", " a！＝b", " ＜＜提示＞＞", " x ＜＝ y", "＞", " ｜ 备注 ｜", " １２３"})
	default:
		tail = gen.RawBytes(r)
	}
	if r.P(1, 5) {
		// a valid continuation with one character replaced (full-width look-alikes included):
		// almost-accepted text is where abandoned parse branches are most likely
		var cont string
		if fam == "st" {
			cont = r.Pick([]string{"&手枪=1d6", "&手枪:1d6+2", "敏捷:70", "敏捷=70", "敏捷*2:5", "'体质 1':3", "力量+1d4", "力量-=2", "hp:5", "闪避*:60"})
		} else {
			cont = gen.ValidProgram(r, 2, false)
		}
		rs := []rune(cont)
		if len(rs) > 0 {
			i := r.Intn(len(rs))
			if r.Bool() {
				// prefer the punctuation of the continuation
				var punct []int
				for k, c := range rs {
					if strings.ContainsRune(":=*+-'&(),[]{}?", c) {
						punct = append(punct, k)
					}
				}
				if len(punct) > 0 {
					i = punct[r.Intn(len(punct))]
				}
			}
			rs[i] = []rune(r.Pick([]string{"：", "＝", "；", "，", "（", "）", "［", "｛", "＋", "－", "＊", "？", "！", " ", "\t", "#", "@", "~", "$", "\\", "＞", "＜", "＆", "｜", "／", "％", "＾", "。", "、", "“", "‘", "｝", "］"}))[0]
			tail = string(rs)
			sep := r.Pick([]string{" ", "", ",", ";", "\n"})
			return head + sep + tail, fam
		}
	}
	return head + r.Pick(gen.Separators) + tail, fam
}

var c03Deterministic = []string{
	"1 + b(3)x", "10 + p(7)x", "5;{'a':1", "5\n{'a':1", "[x,2]\n[x,2]", "1 || )", "x = 3; x || ", "力量 + \n 'abc", "2 + `a{x", "x reason", "&a = e\ntext", "1 ? 2, x",
	"xs=[[1,2],[3]]; xs[0][1", "2d6 + f(1,", "d20 `a{", "d20 + (1", "3d6kh2 'abc", "{'a':1}.a {'b':", "1 + 2 // c\n + ", "a = 4; a[", "func f(){ 1 }; f() f(", "if 1 { 2 } else",
}

func c03N(tier string) int {
	if tier == "thorough" {
		return 600000
	}
	return 60000
}

func c03Case(w *fw.W, idx int, r *fw.Rand) {
	var src, fam string
	if idx < len(c03Deterministic) {
		src, fam = c03Deterministic[idx], "deterministic"
	} else {
		src, fam = c03Input(r)
	}
	cfg := RandCfg(r)
	cfg.OpLimit = 20000
	cfg.ParseLimit = 10000000
	cfg.Min, cfg.Max = false, false
	if r.P(2, 3) || idx < len(c03Deterministic) {
		cfg.WoD, cfg.CoC, cfg.Fate, cfg.DC = true, true, true, true
		cfg.NoStmts, cfg.NoNDice, cfg.NoBitwise = false, false, false
	}
	if cfg.DefSide == "1 +" {
		cfg.DefSide = ""
	}
	cfg.Seed = r.U64() | 1
	var setup []string
	if r.P(1, 2) {
		setup = append(setup, "x = 4; y = 'q'; xs = [1,2,3]; dd = {'k': 1}; 力量 = 60; func f(v) { v + 1 }")
	}
	desc := fmt.Sprintf("cfg=%s setup=%q src=%q", cfg, setup, src)
	w.Begin(idx, desc)
	w.Eval(1)
	w.Count("family_"+fam, 1)

	a := c03Run(cfg, setup, src)
	if a.panicV != "" {
		w.Violate(idx, "panic", "twin|panic", desc, a.panicV, nil)
		return
	}
	if a.err != "" {
		w.Count("rejected", 1)
		return
	}
	w.Count("accepted", 1)
	if a.matched+a.rest != src {
		w.Violate(idx, "mismatch", "twin|matched+rest", desc, fmt.Sprintf("Matched=%q RestInput=%q do not concatenate to the input", a.matched, a.rest), nil)
		return
	}
	if strings.TrimSpace(a.rest) == "" {
		w.Count("fully_consumed", 1)
	} else {
		w.Count("with_rest", 1)
	}
	// self-consistency: the same input on a third identical VM (guards against
	// nondeterminism that is not the contract's business, e.g. dict print order)
	a2 := c03Run(cfg, setup, src)
	b := c03Run(cfg, setup, a.matched)
	stable := func(f func(c03Obs) string) bool { return f(a) == f(a2) }
	report := func(what, key string, av, bv string) {
		w.Violate(idx, "mismatch", "twin|"+key+"|stop="+stopClass(a.rest), desc, fmt.Sprintf("%s differs: Run(input)=%s ; Run(Matched=%q)=%s ; RestInput=%q", what, trunc(av, 300), a.matched, trunc(bv, 300), a.rest), nil)
	}
	switch {
	case b.panicV != "":
		report("panic on Matched alone", "panic", "ok", b.panicV)
	case b.err != "":
		report("error-ness", "error", "ok", "error: "+firstLine(b.err))
	case b.rest != "":
		report("Matched alone is not consumed entirely", "rest-not-empty", "", fmt.Sprintf("RestInput=%q", b.rest))
	default:
		if a.ret != b.ret && stable(func(o c03Obs) string { return o.ret }) {
			report("Ret", "ret", a.ret, b.ret)
		}
		if a.vars != b.vars && stable(func(o c03Obs) string { return o.vars }) {
			report("variables", "vars", a.vars, b.vars)
		}
		if a.detail != b.detail && stable(func(o c03Obs) string { return o.detail }) {
			report("detail text", "detail", a.detail, b.detail)
		}
		if a.st != b.st && stable(func(o c03Obs) string { return o.st }) {
			report("st callback log", "st", a.st, b.st)
		}
		if a.seed != b.seed && stable(func(o c03Obs) string { return o.seed }) {
			report("generator state", "seed", a.seed, b.seed)
		}
		if a.later != b.later && a.seed == b.seed && stable(func(o c03Obs) string { return o.later }) {
			report("later use of the stored computed values/functions", "later", a.later, b.later)
		}
	}
	if len(a.matched) > 0 {
		w.Note(fw.Hash64(src, cfg.String()))
	}
	if idx%2500 == 3 {
		w.Sample(map[string]any{"family": fam, "cfg": cfg.String(), "src": trunc(src, 200), "matched": trunc(a.matched, 120), "rest": trunc(a.rest, 80)})
	}
}

func firstLine(s string) string {
	if i := strings.IndexByte(s, '\n'); i >= 0 {
		return s[:i]
	}
	return s
}

func init() {
	fw.Register(&fw.Prop{
		ID:      "C03",
		AsLimit: true,
		NCases:  c03N,
		Run:     c03Case,
		Floors: func(tier string) map[string]int64 {
			return map[string]int64{"accepted": 8000, "with_rest": 4000, "fully_consumed": 500}
		},
		Rule:        "case = <valid head from 6 families><separator><tail from 6 families> × configuration (seeded); Run(I) on VM-A, Run(Matched) on identically prepared VM-B: Matched+RestInput==I, B succeeds with empty RestInput, Ret/variables/detail/st-log/generator state equal (tree comparison); a third identical run filters observables that are not reproducible on their own. non-trivial = accepted with non-empty Matched; distinct = hash(input, configuration) Also 'paren-count-then-ident': dice operators whose optional count/parameter is parenthesised, directly followed by text that cannot follow (identifier character, blank and word, broken operand).",
		Assumptions: []string{"twin state is built from dice-free setup programs", "observables that differ between two identical runs of the same input are not judged here (C06)"},
	})
}
