package props

import (
	"encoding/json"
	"fmt"
	"strings"

	ds "github.com/sealdice/dicescript"

	"verif/internal/fw"
	"verif/internal/gen"
)

// C10 — deserialising untrusted or outdated JSON never yields a booby-trapped value.

var c10Scripts = []string{"x(1, 2)", "x('hp')", "x('mp', 7)", "x('a', 1, 2)", "x('hp'); x('mp', 7)", "x", "x+1", "1+x", "-x", "x==x", "x ?? 1", "x ? 1 : 2", "x || 1", "x && 1", "x[0]", "x['a']", "x[0:1]", "x.a", "x.a = 1", "x[0] = 1", "x()", "x(1)", "x.len()", "x.sum()", "x.kh()", "x.kl(1)",
	"x.keys()", "x.values()", "x.items()", "x.shuffle()", "x.pop()", "x.shift()", "x.push(1)", "x.rand()", "x.randSize(1)", "x.compute()", "[x]*2", "x*2", "`{x}`", "toStr(x)", "repr(x)", "dir(x)", "typeId(x)", "toInt(x)", "toBool(x)",
	"2d(x)", "(x)d6", "&y = x; y", "x == 1", "x < 1", "[x, x]", "{'k': x}", "x[0][0]", "x.a.b", "func f(v) { v }; f(x)", "store('q', x); q", "load('x')", "x.fn(1)", "x.cv", "abs(x)", "[1,2,3][x]", "x[x]"}

// c10GenScript draws a script from the matrix (form × index key × right-hand side × name), so
// that the battery is not limited to the fixed list above.
func c10GenScript(r *fw.Rand) string {
	K := func() string {
		return r.Pick([]string{"0", "-1", "1", "'a'", "\"hp\"", "'0'", "1.5", "null", "x", "[1]", "{}", "true", "9223372036854775807", "''", "'len'", "-0.0"})
	}
	V := func() string { return r.Pick([]string{"1", "x", "'s'", "[x]", "null", "2.5", "[]", "{'a': x}"}) }
	N := func() string {
		return r.Pick([]string{"a", "len", "keys", "base", "fn", "push", "__proto__", "compute", "name", "v"})
	}
	OP := func() string {
		return r.Pick([]string{"+", "-", "*", "/", "//", "%", "**", "<", "<=", "==", "!=", ">", ">=", "&&", "||", "??", "&", "|"})
	}
	switch r.Intn(26) {
	case 0:
		return "x[" + K() + "]"
	case 1, 2:
		return "x[" + K() + "] = " + V()
	case 3:
		return "x[" + K() + "] = " + V() + "; x"
	case 4:
		return "x[" + K() + ":" + K() + "]"
	case 5:
		return "x[" + K() + ":" + K() + "] = " + V()
	case 6:
		return "x[:" + K() + "]"
	case 7:
		return "x[" + K() + ":]"
	case 8:
		return "x." + N()
	case 9, 10:
		return "x." + N() + " = " + V()
	case 11:
		n := N()
		return "x." + n + " = " + V() + "; x." + n
	case 12:
		return "x." + N() + "(" + V() + ")"
	case 13:
		return "x[" + K() + "](" + V() + ")"
	case 14:
		return "x[" + K() + "][" + K() + "]"
	case 15:
		return "x[" + K() + "][" + K() + "] = " + V()
	case 16:
		return "x." + N() + "." + N() + " = " + V()
	case 17:
		return "x." + N() + "[" + K() + "] = " + V()
	case 18:
		return "&x." + N()
	case 19:
		return "&x." + N() + " = " + V()
	case 20:
		return "y = x; y[" + K() + "] = " + V() + "; x"
	case 21:
		return "x " + OP() + " " + V()
	case 22:
		return V() + " " + OP() + " x"
	case 23:
		return "x." + N() + "(" + K() + ", " + V() + ")"
	case 24:
		return "y = [x, x]; y[0][" + K() + "] = " + V() + "; y"
	default:
		return "func g(v) { v[" + K() + "] = " + V() + "; v }; g(x)"
	}
}

// c10LongExpr is stored code that needs far more parser work than the scripts that use it.
func c10LongExpr(r *fw.Rand) string {
	n := fw.PickT(r, []int{50, 200, 600})
	unit := r.Pick([]string{"1+", "(1)+", "[1][0]+", "x ? 1 : 2; "})
	body := strings.TrimSuffix(strings.Repeat(unit, n), "+")
	if strings.HasSuffix(body, "; ") {
		body += "3"
	}
	return fmt.Sprintf("%q", body)
}

func c10Scalar(r *fw.Rand) string {
	return r.Pick([]string{"1", "0", "-1", "1.5", "\"s\"", "\"\"", "null", "true", "false", "[]", "{}", "[1]", "{\"a\":1}", "9223372036854775807", "9223372036854775808", "1e400", "-0", "1e-400", "\"\\ud800\"", "[null]", "{\"list\":null}"})
}

func c10TypeTag(r *fw.Rand) string {
	if r.P(3, 4) {
		return fmt.Sprint(fw.PickT(r, []int{0, 1, 2, 4, 5, 6, 7, 8, 9, 10}))
	}
	return r.Pick([]string{"3", "11", "12", "20", "21", "25", "99", "-1", "1e3", "2147483648", "\"6\"", "null", "6.0", "6.5", "[6]", "true"})
}

// c10Doc builds a document of the wire format with faults injected at random positions.
func c10Doc(r *fw.Rand, depth int) string {
	fault := r.P(1, 3)
	t := c10TypeTag(r)
	if !fault {
		t = fmt.Sprint(fw.PickT(r, []int{0, 1, 2, 4, 5, 6, 7, 8, 9, 10}))
	}
	child := func() string {
		if depth <= 0 {
			return r.Pick([]string{`{"t":0,"v":1}`, `{"t":2,"v":"s"}`, `{"t":4}`, `null`, `{"t":9,"v":{"name":"zz"}}`, `{"t":6,"v":{"list":[]}}`})
		}
		if r.P(1, 8) {
			return "null"
		}
		return c10Doc(r, depth-1)
	}
	var v string
	switch t {
	case "0":
		v = r.Pick([]string{"1", "0", "-5", "9223372036854775807"})
		if fault {
			v = c10Scalar(r)
		}
	case "1":
		v = r.Pick([]string{"1.5", "0", "-0.25", "1e300"})
		if fault {
			v = c10Scalar(r)
		}
	case "2":
		v = r.Pick([]string{`"s"`, `""`, `"中文"`, `"a\"b"`})
		if fault {
			v = c10Scalar(r)
		}
	case "4":
		if r.Bool() {
			return `{"t":4}`
		}
		v = c10Scalar(r)
	case "5":
		attrs := ""
		if r.Bool() {
			attrs = `,"attrs":{"a":` + child() + `}`
			if fault && r.Bool() {
				attrs = `,"attrs":` + c10Scalar(r)
			}
		}
		expr := r.Pick([]string{`"1+2"`, `"d6"`, `"this.a"`, `"1 +"`, `""`, `"x"`, `"&y"`, `"while 1 {}"`, c10LongExpr(r)})
		if fault && r.Bool() {
			expr = c10Scalar(r)
		}
		v = `{"expr":` + expr + attrs + `}`
		if fault && r.P(1, 4) {
			v = c10Scalar(r)
		}
	case "6":
		n := r.Intn(4)
		var el []string
		for i := 0; i < n; i++ {
			el = append(el, child())
		}
		v = `{"list":[` + strings.Join(el, ",") + `]}`
		if fault {
			switch r.Intn(4) {
			case 0:
				v = `{"list":` + c10Scalar(r) + `}`
			case 1:
				v = c10Scalar(r)
			case 2:
				v = `{}`
			}
		}
	case "7":
		n := r.Intn(3)
		var el []string
		for i := 0; i < n; i++ {
			el = append(el, fmt.Sprintf("%q:%s", r.Pick([]string{"a", "k", "__proto__", "len", "", "0"}), child()))
		}
		v = `{"dict":{` + strings.Join(el, ",") + `}}`
		if fault {
			switch r.Intn(4) {
			case 0:
				v = `{"dict":` + c10Scalar(r) + `}`
			case 1:
				v = c10Scalar(r)
			case 2:
				v = `{}`
			}
		}
	case "8":
		params := r.Pick([]string{`[]`, `["v"]`, `["a","b"]`, `null`, `[1]`, `"v"`, `[null]`})
		expr := r.Pick([]string{`"v + 1"`, `""`, `"return 1"`, `"1 +"`, `"f()"`, `"d"`, c10LongExpr(r)})
		v = `{"expr":` + expr + `,"name":` + r.Pick([]string{`"f"`, `""`, `null`, `1`}) + `,"params":` + params + `}`
		if fault && r.Bool() {
			v = c10Scalar(r)
		}
	case "9":
		v = `{"name":` + r.Pick([]string{`"toStr"`, `"ceil"`, `"store"`, `"load"`, `"loadRaw"`, `"dir"`, `"typeId"`, `"abs"`, `"nope"`, `"Array.push"`, `"Dict.keys"`, `"Computed.compute"`, `""`, `null`, `1`}) + `}`
		if fault && r.Bool() {
			v = c10Scalar(r)
		}
	case "10":
		v = `{"name":` + r.Pick([]string{`"obj"`, `""`, `null`}) + `}`
		if fault && r.Bool() {
			v = c10Scalar(r)
		}
	default:
		v = c10Scalar(r)
	}
	switch r.Intn(12) {
	case 0:
		if fault {
			return `{"t":` + t + `}`
		}
	case 1:
		if fault {
			return `{"v":` + v + `}`
		}
	case 2:
		if fault {
			return `{"t":` + t + `,"v":` + v + `,"t":` + c10TypeTag(r) + `}`
		}
	}
	return `{"t":` + t + `,"v":` + v + `}`
}

func c10N(tier string) int {
	if tier == "thorough" {
		return 300000
	}
	return 12000
}

func c10Case(w *fw.W, idx int, r *fw.Rand) {
	var doc string
	kind := "grammar"
	switch {
	case idx < len(c10Deterministic):
		doc, kind = c10Deterministic[idx], "deterministic"
	case r.P(1, 6):
		// byte mutation of a document the encoder produced
		vm := AllDice().NewVM()
		fw.Guard(func() { _ = vm.Run(r.Pick(c09Builders) + "; " + r.Pick(c09Builders)) })
		var v *ds.VMValue
		vm.Attrs.Range(func(k string, e *ds.VMValue) bool { v = e; return false })
		if v != nil {
			if b, err := v.ToJSON(); err == nil {
				doc, kind = gen.Mutate(r, string(b)), "mutated-encoder-output"
			}
		}
		if doc == "" {
			doc = c10Doc(r, 2)
		}
	case r.P(1, 40):
		// many container levels (arrays, dicts, computed attrs in any mix) around one value that
		// cannot be decoded: the rejection must not cost more than the document is long
		n := []int{10, 20, 30, 60}[r.Intn(4)]
		leaf := r.Pick([]string{`{"t":99}`, `null`, `{"t":9,"v":{"name":"nope"}}`, `{"t":0,"v":"x"}`, `{"t":6,"v":{"list":7}}`, `{"t":3}`})
		var open, close strings.Builder
		var closers []string
		for i := 0; i < n; i++ {
			switch r.Intn(3) {
			case 0:
				open.WriteString(`{"t":6,"v":{"list":[`)
				closers = append(closers, `]}}`)
			case 1:
				open.WriteString(`{"t":7,"v":{"dict":{"k":`)
				closers = append(closers, `}}}`)
			default:
				open.WriteString(`{"t":5,"v":{"expr":"1","attrs":{"a":`)
				closers = append(closers, `}}}`)
			}
		}
		for i := len(closers) - 1; i >= 0; i-- {
			close.WriteString(closers[i])
		}
		doc, kind = open.String()+leaf+close.String(), "deep-broken"
	case r.P(1, 20):
		n := []int{50, 500, 2000}[r.Intn(3)]
		doc, kind = strings.Repeat(`{"t":6,"v":{"list":[`, n)+`{"t":0,"v":1}`+strings.Repeat(`]}}`, n), "deep"
	default:
		doc = c10Doc(r, r.Intn(4))
	}
	asMap := r.P(1, 4)
	desc := fmt.Sprintf("asMap=%v doc=%s", asMap, doc)
	w.Begin(idx, desc)
	w.Eval(1)
	w.Count("documents_"+kind, 1)
	var val *ds.VMValue
	var err error
	if asMap {
		m := &ds.ValueMap{}
		pv, st := fw.Guard(func() { err = json.Unmarshal([]byte(`{"x":`+doc+`}`), m) })
		if pv != nil {
			w.Violate(idx, "panic", fw.PanicKey(pv, st), desc, "Unmarshal(ValueMap): "+fmt.Sprint(pv), nil)
			return
		}
		if err == nil {
			val, _ = m.Load("x")
			if val == nil {
				// a null entry decoded into a nil *VMValue inside the map
				vm := AllDice().NewVM()
				vm.Attrs = m
				for _, f := range []func(){func() { _, _ = m.ToJSON() }, func() { _ = vm.Run("x") }, func() { _ = vm.Run("x + 1") }, func() { m.Range(func(string, *ds.VMValue) bool { return true }) }} {
					if pv, st := fw.Guard(f); pv != nil {
						w.Violate(idx, "panic", fw.PanicKey(pv, st)+"|nil-entry", desc, "a map entry decoded to nil and then: "+fmt.Sprint(pv), nil)
					}
				}
				w.Count("decoded_nil_entries", 1)
				return
			}
		}
	} else if r.P(1, 4) {
		// the host decodes into values it holds itself (json.Unmarshal into a VMValue, a slice,
		// a map or a struct field) instead of going through VMValueFromJSON
		how := r.Intn(4)
		desc = fmt.Sprintf("byValue=%d doc=%s", how, doc)
		w.Begin(idx, desc)
		pv, st := fw.Guard(func() {
			switch how {
			case 0:
				v := &ds.VMValue{}
				if err = json.Unmarshal([]byte(doc), v); err == nil {
					val = v
				}
			case 1:
				var vs []ds.VMValue
				if err = json.Unmarshal([]byte("["+doc+"]"), &vs); err == nil && len(vs) == 1 {
					val = &vs[0]
				}
			case 2:
				var m map[string]ds.VMValue
				if err = json.Unmarshal([]byte(`{"k":`+doc+`}`), &m); err == nil {
					v := m["k"]
					val = &v
				}
			default:
				var s struct{ Val ds.VMValue }
				if err = json.Unmarshal([]byte(`{"Val":`+doc+`}`), &s); err == nil {
					val = &s.Val
				}
			}
		})
		if pv != nil {
			w.Violate(idx, "panic", fw.PanicKey(pv, st), desc, "json.Unmarshal into a held value: "+fmt.Sprint(pv), nil)
			return
		}
		if err == nil && val == nil {
			err = fmt.Errorf("nothing decoded")
		}
		w.Count("decodes_into_held_values", 1)
	} else {
		pv, st := fw.Guard(func() { val, err = ds.VMValueFromJSON([]byte(doc)) })
		if pv != nil {
			w.Violate(idx, "panic", fw.PanicKey(pv, st), desc, "VMValueFromJSON: "+fmt.Sprint(pv), nil)
			return
		}
	}
	if err != nil {
		w.Count("rejected", 1)
		return
	}
	w.Count("decoded", 1)
	w.Count(fmt.Sprintf("decoded_type_%d", val.TypeId), 1)
	step := func(what string, f func()) {
		w.Count("battery_steps", 1)
		if pv, st := fw.Guard(f); pv != nil {
			w.Violate(idx, "panic", fw.PanicKey(pv, st), desc, fmt.Sprintf("decoded without error, then %s: %v\n%s", what, pv, trimStack(st)), nil)
		}
	}
	other := ds.NewIntVal(1)
	step("ToString", func() { _ = val.ToString() })
	step("ToRepr", func() { _ = val.ToRepr() })
	step("AsBool", func() { _ = val.AsBool() })
	step("GetTypeName", func() { _ = val.GetTypeName() })
	step("Clone", func() { _ = val.Clone().ToString() })
	step("ValueEqual(v,v)", func() { _ = ds.ValueEqual(val, val.Clone(), true) })
	step("ValueEqual(v,other)", func() { _ = ds.ValueEqual(val, other, true); _ = ds.ValueEqual(other, val, false) })
	step("ToJSON", func() { _, _ = val.ToJSON() })
	step("Canon", func() { _ = Canon(val) })
	cfg := AllDice()
	cfg.OpLimit = 5000
	cfg.Seed = 11
	cfg.ParseLimit = fw.PickT(r, []uint64{0, 0, 300, 20000}) // a host that also limits parser work
	// the operations the VM applies to arbitrary operands, called directly with hostile arguments
	{
		ctx := cfg.NewVM()
		keys := []*ds.VMValue{ds.NewIntVal(0), ds.NewIntVal(-1), ds.NewStrVal("a"), ds.NewStrVal("len"), ds.NewFloatVal(1.5), ds.NewNullVal(), val, ds.NewArrayVal(ds.NewIntVal(1)), ds.NewIntVal(1 << 62)}
		rhs := []*ds.VMValue{ds.NewIntVal(1), val, ds.NewStrVal("s"), ds.NewNullVal(), ds.NewArrayVal()}
		k1, k2, rv := keys[r.Intn(len(keys))], keys[r.Intn(len(keys))], rhs[r.Intn(len(rhs))]
		nm := r.Pick([]string{"a", "len", "base", "__proto__", "push", ""})
		kd := fmt.Sprintf("k1=%s k2=%s rhs=%s name=%q", trunc(Canon(k1), 40), trunc(Canon(k2), 40), trunc(Canon(rv), 40), nm)
		api := func(what string, f func()) {
			ctx.Error = nil
			step("API "+what+" "+kd, f)
		}
		api("ItemGet", func() { _ = val.ItemGet(ctx, k1) })
		api("ItemSet", func() { _ = val.Clone().ItemSet(ctx, k1, rv) })
		api("AttrGet", func() { _ = val.AttrGet(ctx, nm) })
		api("AttrSet", func() { _ = val.Clone().AttrSet(ctx, nm, rv) })
		api("GetSliceEx", func() { _ = val.GetSliceEx(ctx, k1, k2) })
		api("SetSliceEx", func() { _ = val.Clone().SetSliceEx(ctx, k1, k2, rv) })
		api("Length", func() { _ = val.Length(ctx) })
		api("AsDictKey", func() { _, _ = val.AsDictKey() })
		api("OpPositive/OpNegation", func() { _ = val.OpPositive(); _ = val.OpNegation() })
		api("binary operators", func() {
			for _, f := range []func(*ds.Context, *ds.VMValue) *ds.VMValue{val.OpAdd, val.OpSub, val.OpMultiply, val.OpDivide, val.OpModulus, val.OpPower, val.OpNullCoalescing, val.OpCompLT, val.OpCompLE, val.OpCompEQ, val.OpCompNE, val.OpCompGE, val.OpCompGT, val.OpBitwiseAnd, val.OpBitwiseOr} {
				_ = f(ctx, rv)
			}
			for _, f := range []func(*ds.Context, *ds.VMValue) *ds.VMValue{rv.OpAdd, rv.OpSub, rv.OpMultiply, rv.OpDivide, rv.OpCompEQ, rv.OpCompLT, rv.OpNullCoalescing} {
				_ = f(ctx, val)
			}
		})
	}
	bind := r.Intn(4)
	battery := make([]string, 0, 40)
	for _, si := range r.Perm(len(c10Scripts))[:20] {
		battery = append(battery, c10Scripts[si])
	}
	nFixed := len(battery)
	for i := 0; i < 14; i++ {
		battery = append(battery, c10GenScript(r))
	}
	for bi, sc := range battery {
		vm := cfg.NewVM()
		if bi >= nFixed && bind == 3 {
			vm.Attrs.Store("p", val)
			d := ds.NewDictVal(nil)
			d.Store("p", val)
			vm.Attrs.Store("x", d.V())
			sc = strings.ReplaceAll(sc, "x", "x.p")
			script := sc
			step("script "+script, func() {
				_ = vm.Run(script)
				_ = vm.GetDetailText()
				if vm.Ret != nil {
					_ = vm.Ret.ToString()
				}
				_, _ = vm.Attrs.ToJSON()
			})
			continue
		}
		switch bind {
		case 0, 1:
			vm.Attrs.Store("x", val)
		case 2:
			vm.Attrs.Store("x", ds.NewArrayVal(val))
			sc = strings.ReplaceAll(sc, "x", "x[0]")
			if strings.Contains(sc, "'x[0]'") {
				continue
			}
		case 3:
			d := ds.NewDictVal(nil)
			d.Store("p", val)
			vm.Attrs.Store("x", d.V())
			sc = strings.ReplaceAll(sc, "x", "(x.p)")
			if strings.Contains(sc, "'(x.p)'") || strings.Contains(sc, "(x.p).a = ") || strings.Contains(sc, "(x.p)[0] = ") {
				continue
			}
		}
		script := sc
		step("script "+script, func() {
			_ = vm.Run(script)
			_ = vm.GetDetailText()
			if vm.Ret != nil {
				_ = vm.Ret.ToString()
			}
			_, _ = vm.Attrs.ToJSON()
		})
	}
	w.Note(fw.Hash64(desc))
	if idx%900 == 0 {
		w.Sample(map[string]any{"doc": trunc(doc, 200), "kind": kind, "decoded_type": int(val.TypeId)})
	}
}

var c10Deterministic = []string{
	`{"t":9,"v":{"name":"nope"}}`, `{"t":9}`, `{"t":9,"v":{"name":"Array.push"}}`,
	`{"t":6,"v":{"list":[null]}}`, `{"t":6,"v":{"list":[null,{"t":0,"v":1}]}}`,
	`{"t":7,"v":{"dict":{"a":null}}}`, `{"t":7,"v":{"dict":null}}`, `{"t":7}`,
	`{"t":5,"v":{"expr":"1+","attrs":{"a":null}}}`, `{"t":5}`, `{"t":8}`, `{"t":8,"v":{"expr":"x+","name":"f","params":["x"]}}`,
	`{"t":10,"v":{"name":"x"}}`, `{"t":10}`, `{"t":20}`, `{"t":21}`, `{"t":3}`, `{"t":99}`, `{"t":-1}`,
	`{"t":6,"v":{"list":[{"t":9,"v":{"name":"zz"}}]}}`, `{"t":7,"v":{"dict":{"a":{"t":10,"v":{"name":"o"}}}}}`,
	`{"t":1}`, `{"t":2}`, `{"t":0,"v":null}`, `{"t":6,"v":{"list":null}}`, `null`, `[]`, `1`, `"x"`, `{}`,
}

func init() {
	fw.Register(&fw.Prop{
		ID:      "C10",
		AsLimit: true,
		NCases:  c10N,
		Run:     c10Case,
		Floors: func(tier string) map[string]int64 {
			return map[string]int64{"decoded": 3000, "rejected": 500, "battery_steps": 150000}
		},
		HangWall: 60,
		Rule:        "documents: wire-format grammar with faults injected at every level (wrong JSON type for t/v/inner fields, missing v, null at value/list element/dict entry/attrs, unknown and internal type tags, unknown native and bound-method names, duplicate keys, huge numbers, lone surrogates), byte mutations of encoder output, 50–2000-level nesting, decoded as a value or as a variable map; every document that decodes without error goes through a battery: ToString/ToRepr/AsBool/GetTypeName/Clone/ValueEqual/ToJSON and ~57 scripts with the value bound as a variable, an array element or a dict entry, each under recover() in a memory-limited child. distinct = hash(document, binding)",
		Assumptions: []string{"a decode error is always an acceptable outcome"},
	})
}
