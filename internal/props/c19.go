package props

import (
	"fmt"
	"regexp"
	"runtime"
	"strconv"
	"strings"
	"sync"
	"sync/atomic"
	"time"
	"unicode"
	"unicode/utf8"

	ds "github.com/sealdice/dicescript"

	"verif/internal/fw"
	"verif/internal/gen"
	"verif/internal/hook"
)

// C19 — syntax errors point at the right place in the chosen language.

var rePosPrefix = regexp.MustCompile(`^(\d+):(\d+) \((\d+)\): `)

func hasHan(s string) bool {
	for _, r := range s {
		if unicode.Is(unicode.Han, r) {
			return true
		}
	}
	return false
}

var enPhrases = []string{"Syntax Error", "Pos ", "Expression", "Missing", "Unclosed", "Incomplete", "Unexpected", "Empty input", "Syntax error"}

// checkSyntaxMessage returns (problem class, detail); class "" = fine, "adhoc" = out of scope.
func checkSyntaxMessage(input string, lang int, msg string) (string, string) {
	m := rePosPrefix.FindStringSubmatch(msg)
	if m == nil {
		return "adhoc", ""
	}
	L, _ := strconv.Atoi(m[1])
	C, _ := strconv.Atoi(m[2])
	off, _ := strconv.Atoi(m[3])
	body := msg[len(m[0]):]
	lines := strings.Split(body, "\n")
	header := lines[0]
	if header != "语法错误 Syntax Error" && header != "语法错误" && header != "Syntax Error" {
		return "adhoc", ""
	}
	wantHeader := []string{"语法错误 Syntax Error", "语法错误", "Syntax Error"}[lang]
	if header != wantHeader {
		return "language-header", fmt.Sprintf("header %q but the VM is configured for language %d (%q)", header, lang, wantHeader)
	}
	if off < 0 || off > len(input) {
		return "offset-range", fmt.Sprintf("offset %d outside [0,%d]", off, len(input))
	}
	wantL := 1 + strings.Count(input[:off], "\n")
	ls := strings.LastIndex(input[:off], "\n") + 1
	wantC := 1 + utf8.RuneCountInString(input[ls:off])
	if L != wantL || C != wantC {
		return "line-col", fmt.Sprintf("reported %d:%d for offset %d, which is %d:%d", L, C, off, wantL, wantC)
	}
	rest := lines[1:]
	if len(input) > 0 {
		if len(lines) < 6 {
			return "layout", "context block missing"
		}
		if lines[1] != "  |" || !strings.HasPrefix(lines[2], "  |  ") || !strings.HasPrefix(lines[3], "  |  ") || lines[4] != "  |" {
			return "layout", "context block malformed: " + strings.Join(lines[1:5], " / ")
		}
		quoted := strings.TrimPrefix(lines[2], "  |  ")
		caret := strings.TrimPrefix(lines[3], "  |  ")
		srcLines := strings.Split(input, "\n")
		full := srcLines[wantL-1]
		if utf8.ValidString(full) {
			if !utf8.ValidString(quoted) {
				return "quote-utf8", fmt.Sprintf("quoted line %q is not valid UTF-8 although the source line is", quoted)
			}
			q := quoted
			lead := strings.HasPrefix(q, "...") && !strings.HasPrefix(full, "...")
			if lead {
				q = strings.TrimPrefix(q, "...")
			}
			trail := strings.HasSuffix(q, "...") && q != full[len(full)-minInt(len(full), len(q)):]
			core := q
			if strings.HasSuffix(q, "...") && !strings.Contains(full, q) {
				core = strings.TrimSuffix(q, "...")
			}
			_ = trail
			fr := []rune(full)
			cr := []rune(core)
			// find the window start: without leading ellipsis it must be a prefix
			start := -1
			if !lead {
				if strings.HasPrefix(full, core) {
					start = 0
				}
			} else {
				// choose the occurrence that contains the error column if any
				for s := 0; s+len(cr) <= len(fr); s++ {
					if string(fr[s:s+len(cr)]) == core {
						start = s
						if s <= wantC-1 && wantC-1 <= s+len(cr) {
							break
						}
					}
				}
			}
			if start < 0 {
				return "quote-line", fmt.Sprintf("quoted %q is not (a window of) line %d %q", quoted, wantL, trunc(full, 200))
			}
			if !strings.HasSuffix(caret, "^") || strings.Trim(caret, " ^") != "" {
				return "caret", fmt.Sprintf("caret line %q", caret)
			}
			ci := utf8.RuneCountInString(caret) - 1
			want := wantC - 1 - start
			if lead {
				want += 3
			}
			if ci != want {
				return "caret", fmt.Sprintf("caret at character %d of the quoted text, the error column %d is at character %d of it (quoted %q)", ci, wantC, want, quoted)
			}
			if ci > utf8.RuneCountInString(quoted) {
				return "caret", fmt.Sprintf("caret at %d beyond the quoted text (%d characters)", ci, utf8.RuneCountInString(quoted))
			}
		}
		rest = lines[5:]
	}
	tail := strings.Join(rest, "\n")
	cn := fmt.Sprintf("  位置 %d:%d - ", L, C)
	en := fmt.Sprintf("  Pos %d:%d - ", L, C)
	stripQuotedChar := regexp.MustCompile(`(?s)'.'`)
	switch lang {
	case 1:
		if !strings.HasPrefix(tail, cn) {
			return "position-line", fmt.Sprintf("Chinese position line expected, got %q", tail)
		}
		t := stripQuotedChar.ReplaceAllString(strings.TrimPrefix(tail, cn), "")
		for _, ph := range enPhrases {
			if strings.Contains(t, ph) {
				return "language-body", fmt.Sprintf("English phrase %q in a Chinese-only message: %q", ph, tail)
			}
		}
	case 2:
		if !strings.HasPrefix(tail, en) {
			return "position-line", fmt.Sprintf("English position line expected, got %q", tail)
		}
		t := stripQuotedChar.ReplaceAllString(strings.TrimPrefix(tail, en), "")
		if hasHan(t) {
			return "language-body", fmt.Sprintf("Chinese text in an English-only message: %q", tail)
		}
	default:
		if !strings.HasPrefix(tail, cn) || !strings.Contains(tail, "\n"+en) {
			return "position-line", fmt.Sprintf("bilingual position lines expected, got %q", tail)
		}
	}
	return "", ""
}

var c19Damage = []func(r *fw.Rand, s string) string{
	// a carriage return on its own is an ordinary blank, not a line end
	func(r *fw.Rand, s string) string { return "(1 +\r " + s },
	func(r *fw.Rand, s string) string { return "(" + strings.ReplaceAll(s, " ", "\r") + "\r#" },
	func(r *fw.Rand, s string) string { return "x = 1\r\ry = (2 +\n\r" + s },
	// a byte-order mark (or other invisible characters) at the very start is part of the input
	func(r *fw.Rand, s string) string { return "\ufeff(" + s },
	func(r *fw.Rand, s string) string { return "\ufeff[1,\n 2,\n (" + s },
	func(r *fw.Rand, s string) string { return "\u200b" + s + " )" },
	func(r *fw.Rand, s string) string { return "(" + s },
	func(r *fw.Rand, s string) string { return "[" + s },
	func(r *fw.Rand, s string) string { return "(\n" + s + "\n" },
	func(r *fw.Rand, s string) string { return "'" + strings.ReplaceAll(s, "'", "") },
	func(r *fw.Rand, s string) string { return "(测试 + \n  " + s },
	func(r *fw.Rand, s string) string { return ")" + s },
	func(r *fw.Rand, s string) string { return "(" + strings.Repeat(" ", 55+r.Intn(40)) + s },
	func(r *fw.Rand, s string) string { return "(" + strings.Repeat("测", 15+r.Intn(30)) + " + " + s },
	func(r *fw.Rand, s string) string { return "{'k': " + s },
	func(r *fw.Rand, s string) string { return "`a{" + s },
	func(r *fw.Rand, s string) string { return "(1 +\r\n" + s },
	func(r *fw.Rand, s string) string { return "^st\n" + s },
	func(r *fw.Rand, s string) string { return "&\n" + s },
	func(r *fw.Rand, s string) string { return "(" + s + "\n" },
	func(r *fw.Rand, s string) string { return "(" + strings.ReplaceAll(s, " ", "\n") },
	func(r *fw.Rand, s string) string {
		return "(" + strings.Repeat("力量+", 10+r.Intn(40)) + s
	},
	func(r *fw.Rand, s string) string { return "(" + strings.Repeat("x +\n", 1+r.Intn(5)) + s + " +\n" },
	func(r *fw.Rand, s string) string { return "(" + strings.Repeat("🎲", 20+r.Intn(30)) },
	func(r *fw.Rand, s string) string { return "(" + strings.Repeat("a\t", 30+r.Intn(30)) + s },
	func(r *fw.Rand, s string) string { return "x = (1 +\n\n\n" },
	func(r *fw.Rand, s string) string { return "\"" + strings.Repeat("é", 58+r.Intn(5)) },
	func(r *fw.Rand, s string) string {
		if len(s) == 0 {
			return "("
		}
		return "(" + s[:r.Intn(len(s))]
	},
	func(r *fw.Rand, s string) string { return "(1 +\n 命运骰 + #) + " + s },
	func(r *fw.Rand, s string) string { return "[命运骰, 骰20面, 2 #]" + s },
	func(r *fw.Rand, s string) string { return "(命运骰+骰6面+" + s },
	func(r *fw.Rand, s string) string { return "(" + s + " + 骰100面 * (命运骰 - " },
}

func c19Input(r *fw.Rand) string {
	if r.P(1, 200) {
		// very long lines (around and beyond 64 KiB) in multi-line inputs, the error on or after them
		n := fw.PickT(r, []int{300, 4096, 65000, 65535, 65536, 70000})
		fill := r.Pick([]string{"a", "a", " ", "中"})
		if fill == "中" {
			n /= 3
		}
		long := strings.Repeat(fill, n)
		switch r.Intn(5) {
		case 0:
			return "[ \"" + long + "\",\n  1 + # ]"
		case 1:
			return "[ 1,\n  \"" + long + "\" # ]"
		case 2:
			return "x = 1\n'" + long + "' )\n2"
		case 3:
			return "1 +\n2 + // " + long + "\n # 3"
		default:
			return "'" + long + "'\n\n + ] 1\r\n2"
		}
	}
	switch r.Intn(12) {
	case 0:
		return ""
	case 1:
		return r.Pick([]string{" ", "\n", "\t\n ", "/", "*", ")", "]", "}", "\xff", "。", "!", "@x", "#"})
	}
	var base string
	switch r.Intn(4) {
	case 0:
		base = gen.ValidProgram(r, 2, r.Bool())
	case 1:
		base = gen.DiceProgram(r)
	case 2:
		c := gen.Corpus()
		base = c[r.Intn(len(c))]
	default:
		base = gen.StmtNest(r, 1, false, false)
	}
	return fw.PickT(r, c19Damage)(r, base)
}

func c19Dims(tier string) (nSeq, nConc int) {
	if tier == "thorough" {
		return 1000000, 4000
	}
	return 40000, 300
}

func c19Parse(lang int, in string) (string, any) {
	vm := ds.NewVM()
	vm.Config.ParseErrorLanguage = lang
	vm.Config.ParseExprLimit = 10000000
	// registered custom syntaxes with multi-byte tokens: positions after them are still
	// counted in characters
	_ = vm.RegCustomDice(`命运骰|骰(\d+)面`, func(ctx *ds.Context, groups []string, _ any) (*ds.VMValue, string, error) {
		return ds.NewIntVal(1), "", nil
	})
	var err error
	pv, _ := fw.Guard(func() { err = vm.Parse(in) })
	if pv != nil {
		return "", pv
	}
	if err == nil {
		return "", nil
	}
	return err.Error(), nil
}

func c19Seq(w *fw.W, idx int, r *fw.Rand) {
	in := c19Input(r)
	lang := r.Intn(3)
	// a host may also have used the package-level setting; a VM's own setting (including
	// 0 = bilingual) decides the language of its messages
	glob := r.Intn(3)
	ds.SetParseErrorLanguage(glob)
	defer ds.SetParseErrorLanguage(0)
	desc := fmt.Sprintf("lang=%d packageLevelLang=%d input=%q", lang, glob, trunc(in, 400))
	if len(in) > 400 {
		desc += fmt.Sprintf(" (input of %d bytes, sha %s)", len(in), fw.Hash64(in))
	}
	w.Begin(idx, desc)
	msg, pv := c19Parse(lang, in)
	w.Eval(1)
	if pv != nil {
		w.Violate(idx, "panic", "syntax-error|panic", desc, fmt.Sprint(pv), nil)
		return
	}
	if msg == "" {
		w.Count("accepted", 1)
		return
	}
	cls, det := checkSyntaxMessage(in, lang, msg)
	switch cls {
	case "":
		w.Count("messages_checked", 1)
		w.Count(fmt.Sprintf("lang_%d", lang), 1)
		if strings.Contains(in, "\n") {
			w.Count("multiline_inputs", 1)
		}
		w.Note(fw.Hash64(desc))
	case "adhoc":
		w.Count("adhoc_messages_skipped", 1)
	default:
		w.Violate(idx, "syntax-error", "syntax-error|"+cls, desc, det+"\nmessage:\n"+msg, nil)
	}
	if idx%4000 == 0 {
		w.Sample(map[string]any{"lang": lang, "input": trunc(in, 120), "message": trunc(msg, 300)})
	}
	if r.P(1, 4) && len(in) < 2000 {
		// the same rejected text as the source of a value that is compiled at its first use (a
		// computed value made by the host, a function restored without code): the message comes
		// from a sub-VM and is still written in the language of the VM that evaluates it
		for _, form := range []string{"computed", "function"} {
			vm := ds.NewVM()
			vm.Config.ParseErrorLanguage = lang
			vm.Config.ParseExprLimit = 10000000
			vm.Config.OpCountLimit = 30000
			src := "lzv"
			if form == "computed" {
				vm.Attrs.Store("lzv", ds.NewComputedVal(in))
			} else {
				vm.Attrs.Store("lzf", ds.NewFunctionValRaw(&ds.FunctionData{Expr: in, Name: "lzf"}))
				src = "lzf()"
			}
			var err error
			if pv, _ := fw.Guard(func() { err = vm.Run(src) }); pv != nil || err == nil {
				continue
			}
			m := err.Error()
			if !strings.Contains(m, "语法错误") && !strings.Contains(m, "Syntax Error") {
				continue
			}
			w.Count("lazy_messages_checked", 1)
			if cls, det := checkSyntaxMessage(in, lang, m); strings.HasPrefix(cls, "language-") {
				w.Violate(idx, "syntax-error", "syntax-error|lazy-"+form+"|"+cls, desc, "as the source of a lazily compiled "+form+": "+det+"\nmessage:\n"+m, nil)
			}
		}
	}
}

// concurrent part: every goroutine owns a VM with its own language; messages must equal
// the ones the same inputs give in isolation
func c19Conc(w *fw.W, idx int, r *fw.Rand) {
	G := r.Range(3, 8)
	per := 30
	type job struct {
		lang int
		ins  []string
		want []string
	}
	jobs := make([]job, G)
	for g := range jobs {
		jobs[g].lang = g % 3
		for i := 0; i < per; i++ {
			in := c19Input(r)
			jobs[g].ins = append(jobs[g].ins, in)
		}
	}
	// isolated baselines first
	for g := range jobs {
		for _, in := range jobs[g].ins {
			m, _ := c19Parse(jobs[g].lang, in)
			jobs[g].want = append(jobs[g].want, m)
		}
	}
	var yctr uint64
	seed := r.U64()
	yf := func(point string) {
		n := atomic.AddUint64(&yctr, 1)
		switch ((n * 0x9E3779B97F4A7C15) ^ seed) >> 61 {
		case 0, 1, 2:
			runtime.Gosched()
		case 3:
			time.Sleep(20 * time.Microsecond)
		}
	}
	hook.YieldFn.Store(&yf)
	defer hook.YieldFn.Store(nil)
	w.Begin(idx, fmt.Sprintf("concurrent: %d goroutines × %d rejected inputs, languages by goroutine index mod 3", G, per))
	var wg sync.WaitGroup
	var mu sync.Mutex
	type diff struct {
		g, i int
		got  string
	}
	var diffs []diff
	start := make(chan struct{})
	for g := range jobs {
		wg.Add(1)
		go func(g int) {
			defer wg.Done()
			<-start
			for i, in := range jobs[g].ins {
				m, _ := c19Parse(jobs[g].lang, in)
				if m != jobs[g].want[i] {
					mu.Lock()
					diffs = append(diffs, diff{g, i, m})
					mu.Unlock()
				}
			}
		}(g)
	}
	close(start)
	wg.Wait()
	for _, d := range diffs {
		in := jobs[d.g].ins[d.i]
		w.Violate(idx, "syntax-error", "syntax-error|cross-vm-language", fmt.Sprintf("lang=%d input=%q", jobs[d.g].lang, in), fmt.Sprintf("under concurrency this VM (language %d) got\n%s\nbut in isolation\n%s", jobs[d.g].lang, d.got, jobs[d.g].want[d.i]), nil)
	}
	w.Eval(int64(G * per))
	w.Count("concurrent_batches", 1)
	w.Count("concurrent_parses", int64(G*per))
	w.Count("yield_events", int64(atomic.LoadUint64(&yctr)))
	w.Note(fw.Hash64("conc", fmt.Sprint(idx), fmt.Sprint(seed)))
}

func init() {
	fw.Register(&fw.Prop{
		ID:      "C19",
		Race:    true,
		HangCPU: 600, // batches of up to 16 goroutines under the race detector
		NCases: func(tier string) int {
			a, b := c19Dims(tier)
			return a + b
		},
		Run: func(w *fw.W, idx int, r *fw.Rand) {
			nSeq, _ := c19Dims(w.Tier)
			if idx < nSeq {
				c19Seq(w, idx, r)
			} else {
				c19Conc(w, idx, r)
			}
		},
		Decide: raceDecide,
		Floors: func(tier string) map[string]int64 {
			return map[string]int64{"messages_checked": 15000, "lang_0": 3000, "lang_1": 3000, "lang_2": 3000, "multiline_inputs": 3000, "concurrent_parses": 20000}
		},
		Rule:        "rejected inputs: generated programs / dice / corpus entries damaged by 22 operators (unclosed bracket/string/template, damage on line 1..6, CR/LF/CRLF, multi-byte and wide text before the error, tabs, lines of 55–300 bytes around the truncation width, empty and blank input, ^st prefixes, positions at a newline) × 3 languages; the message is parsed: offset within input, line/column = those of the offset, quoted line = that line (or a window of it marked by ...), caret under the column, header/position lines only in the configured language. Concurrent batches: 3–8 goroutines with own VM and language under the race detector with a yield point in Parse; every message must equal its isolated baseline. A quarter of the rejected texts are also evaluated as the source of a lazily compiled computed value / function: the sub-VM's message must be in the evaluating VM's language. distinct = hash(language, input)",
		Assumptions: []string{"only messages produced by the friendly formatter (header 语法错误 / Syntax Error) are in scope; ad-hoc grammar messages have no position block"},
	})
}
