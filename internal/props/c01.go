package props

import (
	"fmt"
	"strings"

	ds "github.com/sealdice/dicescript"

	"verif/internal/fw"
	"verif/internal/gen"
	"verif/internal/hook"
)

// C01 — no input can crash the host: the public API is total.

// apiCalls is the menu of observations made after (or around) an evaluation.
var apiCalls = []string{"Run", "Run", "Run", "Parse+RunAfterParsed", "Parse+RunAfterParsed×2", "ParseOnly", "RunExpr", "RunExprUp", "Parse;RunAfterParsed-regardless", "RunAfterParsed-only"}

// hostileSource draws one source text; the family name is returned for evidence.
func hostileSource(r *fw.Rand) (string, string) {
	switch k := r.Intn(20); {
	case k < 6:
		return gen.Matrix(r), "matrix"
	case k < 8:
		return gen.Ladder(r), "ladder"
	case k < 9:
		return gen.Doubling(r), "doubling"
	case k < 12:
		c := gen.Corpus()
		return gen.Mutate(r, c[r.Intn(len(c))]), "mutated-corpus"
	case k < 13:
		return gen.RawBytes(r), "raw-bytes"
	case k < 15:
		return gen.ValidProgram(r, 3, r.Bool()), "valid"
	case k < 17:
		return gen.ValidProgram(r, 2, r.Bool()) + r.Pick(gen.Separators) + r.Pick(gen.Tails), "valid+tail"
	case k < 18:
		return gen.Mutate(r, gen.ValidProgram(r, 3, true)), "mutated-valid"
	case k < 19:
		return gen.DiceProgram(r), "dice"
	default:
		return gen.Mutate(r, gen.DiceProgram(r)), "mutated-dice"
	}
}

// c01Deterministic is the fixed list that is always executed (regressions and known shapes).
var c01Deterministic = []string{
	"[].rand()", "xs=[1,2,3]; xs.randSize(0-1)", "xs=[1,2,3]; xs.randSize(5)", "xs=[1,2]; xs.kh('x')", "xs=[1,2]; xs.kl(1.5)",
	strings.Repeat("if 1 {", 21) + "1" + strings.Repeat("}", 21),
	"`" + strings.Repeat("{`", 21) + "1" + strings.Repeat("`}", 21) + "`",
	"i=0; while i<25 { i=i+1; if 1 { continue } }; i",
	"i=0; while i<25 { i=i+1; if i > 30 { break } }; i",
	"[x,2]\n[x,2]", "1 || )", "&z = d + 1; z", "&z = 2d + 1; z", "func g(){ d }; g()",
	"s='abcdefgh'; s || s[6][-2:]", "[1..(0-9223372036854775807)]", "[false..9223372036854775807]",
	"b(1.5)", "p('x')", "2a(null)", "2a5m('x')", "2c[1]", "(1.5)c5", "2a5k(1.5)", "b(0-1)", "d9223372036854775807",
	"9223372036854775807d6", "b(9223372036854775807)", "xs=[1,2,3]; xs.kh(9223372036854775807)",
	"x='ab'; i=0; while i < 60 { x = x + x; i = i + 1 }; 1", "1a2m100000000", "1c2m100000000",
	"&a = a; a", "this.x = 5; x", "dct = {}; dct.k = dct['j'] = []", "x.y = z.w = 5",
	"d = {}; d.me = d; toStr(d)", "xs = [1]; xs.push(xs); repr(xs)",
	"^sta-0*[1]", "^sta-1>2?'x':'y'", "xs=[1]; xs[0]=xs; ys=[1]; ys[0]=ys; xs==ys", "i=0; while i<2 { func g() { if 1 { break } }; g(); i=i+1 }; i",
	"s='0123456789012345678901234567890123456789012345678901234567890123'; s[64]", "dd = {}; dd.__proto__ = dd; dd.x", "aa = {}; bb = {}; bb.__proto__ = bb; aa.__proto__ = bb; aa.x",
	"x=[1]; i=0; while i<40 { x=[x,x]; i=i+1 }; y=[1]; i=0; while i<40 { y=[y,y]; i=i+1 }; x==y",
	"a=[1,2]; i=0; while i < 60 { a[0:0] = a; i = i + 1 }; 1",
}

func c01N(tier string) int {
	if tier == "thorough" {
		return 1500000
	}
	return 36000
}

type c01Mon struct {
	hook.Monitor
	lastCtx *ds.Context
	lastPC  int
}

func c01Case(w *fw.W, idx int, r *fw.Rand) {
	var src, fam string
	if idx < len(c01Deterministic) {
		src, fam = c01Deterministic[idx], "deterministic"
	} else {
		src, fam = hostileSource(r)
	}
	cfg := RandCfg(r)
	cfg.OpLimit = []int64{50, 1000, 30000}[r.Intn(3)]
	if idx < len(c01Deterministic) {
		cfg = AllDice()
		cfg.OpLimit = 30000
		cfg.Seed = 7
	}
	cfg.ParseLimit = []uint64{0, 0, 200, 10000000}[r.Intn(4)]
	if idx < len(c01Deterministic) {
		cfg.ParseLimit = 0
	}
	prior := ""
	if idx >= len(c01Deterministic) {
		switch r.Intn(6) {
		case 0:
			prior = gen.ValidProgram(r, 2, false)
		case 1:
			prior = gen.DiceProgram(r)
		case 2:
			c := gen.Corpus()
			prior = c[r.Intn(len(c))]
		}
	}
	call := r.Pick(apiCalls)
	if idx < len(c01Deterministic) {
		call = "Run"
	}
	if idx >= len(c01Deterministic) && r.P(1, 40) {
		// kept code (computed values, functions) whose source ends in a dice term with a
		// parenthesised operand, followed by blanks / line breaks / a tail, and read afterwards by
		// its precompiled code, in the same program or in the next one
		e := r.Pick([]string{"22dkh(1)", "3dq(2)", "4dmin(2)", "(5)dk(3)", "1 + 2dk(1)", "(2)d(3)", "2d(3)", "d(4)", "2d6kh(1)", "b(2)", "3a(8)", "`{d}`", "[d][0]", "(d)"})
		blanks := strings.Repeat(r.Pick([]string{" ", " ", "\t", "\n"}), r.Intn(10))
		def := r.Pick([]string{"&kv = " + e, "&kv = " + e, "func kf() { " + e + blanks + "}", "^st&kv=" + e})
		reader := r.Pick([]string{"kv", "kv + kv", "kf()", "`{kv}`", "[kv, kv]"})
		if r.Bool() {
			prior = def + blanks + r.Pick([]string{"", "reason", "理由 d", ";", "#"})
			src = reader
		} else {
			src = def + blanks + r.Pick([]string{"\n", ";", " ;\n"}) + reader
		}
		fam = "kept-code-tail"
		if cfg.DefSide == "1 +" {
			cfg.DefSide = "20"
		}
		call = r.Pick([]string{"Run", "Run", "Parse+RunAfterParsed×2", "RunExpr"})
	} else if idx >= len(c01Deterministic) && r.P(1, 25) {
		// stale program: a long earlier program whose instructions refer to its source text
		// (default-sided dice, annotations, function/computed bodies, templates), then a short
		// input that does not parse, driven by a host that ignores Parse's verdict
		pad := strings.Repeat(r.Pick([]string{"1 + ", "x = 5; ", "'pad' + 'x'; ", "力量 = 50; "}), r.Range(1, 6))
		prior = pad + r.Pick([]string{"d", "2d + 1", "d优势", "3d劣势 + d", "func g() { d }; g()", "&c = 2d; c", "`{d} and {2d}`", "[d, 2d][1]", "d6 + d", "1 ? d : 2d", "i = 0; while i < 2 { i = i + d1 }; d"})
		src = r.Pick([]string{"", "(", ")", "1 +", "^st", "'", "`{", "[1,", "x =", "d +", "func g(", "// #EnableDice wod true\n", " ", "\n", "1 ? "})
		call = r.Pick([]string{"Parse;RunAfterParsed-regardless", "Parse;RunAfterParsed-regardless", "RunAfterParsed-only", "Parse+RunAfterParsed×2"})
		fam = "stale-program"
		if cfg.DefSide == "1 +" {
			cfg.DefSide = "20"
		}
	}
	desc := fmt.Sprintf("cfg=%s prior=%q call=%s src=%q", cfg, prior, call, src)
	w.Begin(idx, desc)

	mon := &c01Mon{}
	mon.Cap = 64*cfg.OpLimit + 200000
	mon.OnTick = func(ctx *ds.Context, pc int) { mon.lastCtx, mon.lastPC = ctx, pc }
	hook.Set(&mon.Monitor)
	defer hook.Set(nil)

	vm := cfg.NewVM()
	if r.Bool() || idx < len(c01Deterministic) {
		// a host that listens to st edits
		vm.Config.CallbackSt = func(_type string, name string, val *ds.VMValue, extra *ds.VMValue, op string, detail string) {
			_ = val.ToString()
			if extra != nil {
				_ = extra.ToString()
			}
		}
	}
	if idx >= len(c01Deterministic) && r.P(1, 8) {
		// values without compiled code (decoded from JSON / host-made), some of them recursive;
		// the input then refers to them
		c07InstallLazy(vm, r)
		src = r.Pick([]string{"lx", "lf(0)", "ghp", "gself + 1", "lok(2) + gok", "lx + ", "d + lf(1)", "`{lx}`", "[gok, gfresh, lok(1)]"}) + r.Pick([]string{"", "", "; " + src})
		fam = "lazy-values"
		desc = fmt.Sprintf("cfg=%s prior=%q call=%s lazy-values src=%q", cfg, prior, call, src)
		w.Begin(idx, desc)
	}
	aborted := false
	guard := func(what string, f func()) bool {
		pv, st := fw.Guard(f)
		if pv == nil {
			return true
		}
		if wc, ok := pv.(hook.WorkCap); ok {
			op := "?"
			if mon.lastCtx != nil {
				op = ds.VerifOpAt(mon.lastCtx, mon.lastPC)
			}
			w.Violate(idx, "hang", "workcap|"+op, desc, fmt.Sprintf("%s: metered work %d exceeded cap %d under OpCountLimit=%d (last opcode %s, ticks=%d rolls=%d)", what, wc.Work, wc.Cap, cfg.OpLimit, op, mon.Ticks, mon.Rolls), nil)
			aborted = true
			return false
		}
		key := fw.PanicKey(pv, st)
		if mon.lastCtx != nil && strings.Contains(key, "|(*Context).evaluate|") {
			key += "|" + ds.VerifOpAt(mon.lastCtx, mon.lastPC)
		}
		w.Violate(idx, "panic", key, desc, fmt.Sprintf("%s panicked: %v\n%s", what, pv, trimStack(st)), nil)
		w.Count("panics", 1)
		return false
	}
	if prior != "" {
		guard("prior Run", func() { _ = vm.Run(prior) })
		if aborted {
			return
		}
	}
	observe := func() {
		guard("GetDetailText", func() { a := vm.GetDetailText(); b := vm.GetDetailText(); _ = a == b })
		guard("GetAsmText", func() { _ = vm.GetAsmText() })
		guard("Ret.ToString", func() {
			if vm.Ret != nil {
				_ = vm.Ret.ToString()
				_ = vm.Ret.ToRepr()
			}
		})
		guard("Matched/RestInput", func() { _ = vm.Matched + vm.RestInput })
		guard("GetErrorText", func() { _ = vm.GetErrorText() })
		guard("IsCalculateExists", func() { _ = vm.IsCalculateExists() })
		guard("GetCurSeed", func() { _, _ = vm.GetCurSeed() })
		guard("StackTop/Depth", func() { _ = vm.StackTop() + vm.Depth() })
		guard("GetParsedOffset", func() { _ = vm.GetParsedOffset() })
	}
	accepted := false
	switch call {
	case "Run":
		guard("Run", func() { accepted = vm.Run(src) == nil })
	case "ParseOnly":
		guard("Parse", func() { accepted = vm.Parse(src) == nil })
	case "Parse+RunAfterParsed", "Parse+RunAfterParsed×2":
		ok := false
		guard("Parse", func() { ok = vm.Parse(src) == nil })
		if ok && !aborted {
			guard("RunAfterParsed", func() { accepted = vm.RunAfterParsed() == nil })
			if call == "Parse+RunAfterParsed×2" && !aborted {
				observe()
				mon.Ticks, mon.Rolls = 0, 0
				guard("RunAfterParsed(2)", func() { _ = vm.RunAfterParsed() })
			}
		}
	case "Parse;RunAfterParsed-regardless":
		// a host that does not look at Parse's error before running
		guard("Parse", func() { _ = vm.Parse(src) })
		if !aborted {
			guard("RunAfterParsed(after whatever Parse returned)", func() { accepted = vm.RunAfterParsed() == nil })
		}
	case "RunAfterParsed-only":
		// re-running what the prior call left (or nothing at all on a fresh VM)
		guard("RunAfterParsed(without Parse)", func() { accepted = vm.RunAfterParsed() == nil })
		if !aborted {
			guard("Run", func() { _ = vm.Run(src) })
		}
	case "RunExpr", "RunExprUp":
		guard("RunExpr", func() {
			_, err := vm.RunExpr(src, call == "RunExprUp")
			accepted = err == nil
		})
	}
	if !aborted {
		observe()
		// a later failing Parse followed by observation (stale state)
		if r.P(1, 4) {
			guard("Parse(bad)", func() { _ = vm.Parse("(1 +") })
			observe()
		}
		// (Attrs.ToJSON is not among the observations the property lists; C09/C10 cover it. A value
		// with heavily shared sub-structure legitimately expands exponentially in a tree format.)
		if r.P(1, 4) {
			mon.Ticks, mon.Rolls = 0, 0
			guard("Run(again)", func() { _ = vm.Run(src) })
			if !aborted {
				observe()
			}
		}
	}
	hook.Set(nil)
	// canary: package-level state must still be sane
	c := ds.NewVM()
	var cerr error
	if pv, _ := fw.Guard(func() { cerr = c.Run("1+1") }); pv != nil || cerr != nil || c.Ret == nil || c.Ret.ToString() != "2" {
		w.Violate(idx, "canary", "canary|1+1", desc, fmt.Sprintf("after this case a fresh VM no longer evaluates 1+1 (panic=%v err=%v)", pv, cerr), nil)
	}
	c2 := Cfg{Seed: 99}.NewVM()
	if pv, _ := fw.Guard(func() { cerr = c2.Run("3d6") }); pv != nil || cerr != nil || c2.Ret.ToString() != canary3d6 {
		if canary3d6 == "" && pv == nil && cerr == nil {
			canary3d6 = c2.Ret.ToString()
		} else {
			w.Violate(idx, "canary", "canary|3d6", desc, fmt.Sprintf("seeded 3d6 on a fresh VM changed: %v (was %s) panic=%v err=%v", c2.Ret, canary3d6, pv, cerr), nil)
		}
	}
	w.Eval(1)
	w.Count("family_"+fam, 1)
	w.Count("call_"+call, 1)
	if accepted {
		w.Count("accepted", 1)
	} else {
		w.Count("rejected", 1)
	}
	if mon.Ticks > 0 {
		w.Count("executed_some_code", 1)
		w.Note(fw.Hash64(src, cfg.String(), call, prior))
	} else if len(src) > 0 {
		w.Note(fw.Hash64(src, cfg.String(), call, prior))
	}
	if idx%3000 == 7 {
		w.Sample(map[string]any{"family": fam, "cfg": cfg.String(), "call": call, "src": trunc(src, 200), "accepted": accepted})
	}
}

var canary3d6 string

func trimStack(st []byte) string {
	s := string(st)
	// keep the frames after the panic call
	if i := strings.Index(s, "panic("); i >= 0 {
		s = s[i:]
	}
	l := strings.Split(s, "\n")
	if len(l) > 14 {
		l = l[:14]
	}
	return strings.Join(l, "\n")
}

func init() {
	fw.Register(&fw.Prop{
		ID:      "C01",
		AsLimit: true,
		NCases:  c01N,
		Run:     c01Case,
		Floors: func(tier string) map[string]int64 {
			return map[string]int64{"accepted": 3000, "rejected": 3000, "executed_some_code": 5000, "family_matrix": 2000, "family_mutated-corpus": 1000}
		},
		HangWall: 15,
		Rule:     "case = (source from one of 10 hostile families or the deterministic list, configuration with OpCountLimit in {50,1000,30000}, optional prior program on the same VM, API call shape); every API call runs under recover(), the child under a 3 GiB address-space limit and a work meter (cap 64·limit+200000 dispatches+dice); a canary VM runs after every case. distinct = hash of (source, configuration, call shape, prior); non-trivial = non-empty source",
		Assumptions: []string{"an operation budget is always configured (the property promises exhaustion-freedom only then)", "a work-meter overrun stands for 'hang'; unmetered native loops are caught by the per-case watchdog + isolated CPU-limited re-run"},
	})
}
