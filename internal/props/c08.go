package props

import (
	"unicode/utf8"
	"fmt"
	"strings"

	ds "github.com/sealdice/dicescript"

	"verif/internal/fw"
	"verif/internal/gen"
	"verif/internal/hook"
	"verif/internal/mon"
)

// C08 — compiled code is well-formed on every path.
//
// Monitor: at the parsed-program hook (every successful Parse, including the lazy
// compilation of function / computed / default-side bodies in sub-VMs) the compiled
// program is verified as a control-flow graph by mon.VerifyProgram.

func codeListing(code []ds.VerifOp) string {
	var sb strings.Builder
	for _, c := range code {
		sb.WriteString(c.Text)
		sb.WriteByte('\n')
		if c.Body != nil {
			sb.WriteString("{" + codeListing(c.Body) + "}")
		}
	}
	return sb.String()
}

// stopClass classifies the first non-blank character of the text handed back.
func stopClass(rest string) string {
	t := strings.TrimLeft(rest, " \t\r\n")
	if t == "" {
		return "none"
	}
	c := t[0]
	switch {
	case strings.HasPrefix(t, "||"):
		return "||"
	case strings.HasPrefix(t, "&&"):
		return "&&"
	case strings.ContainsRune("{[('\"`|&,?.:;=+-*/%^<>!)]}\x1e", rune(c)):
		return string(c)
	case c >= '0' && c <= '9':
		return "digit"
	case c < 0x80 && (c >= 'a' && c <= 'z' || c >= 'A' && c <= 'Z' || c == '_' || c == '$'):
		return "ident"
	case c >= 0x80:
		return "nonascii"
	}
	return "other"
}

// c08StValue is an expression placed where the grammar parses under different switches than
// around it (attribute edits parse their value without statements, default-sided dice and
// bitwise operators): every construct those switches affect, in every operand position.
func c08StValue(r *fw.Rand) string {
	atom := func() string {
		return r.Pick([]string{"1", "2", "x", "d", "2d", "d6", "1|2", "3&1", "(1|2)", "(d)", "60", "1.5", "'s'", "[1|2]", "f(1|2)", "a", "b2", "f", "3a8", "`{1|2}`", "`{% if 1 {2} %}`", "if 1 {2}", "-1", "1d", "d+1"})
	}
	switch r.Intn(12) {
	case 0:
		return atom()
	case 1:
		return atom() + r.Pick([]string{"+", "-", "*", " + ", "|", " | ", "&", " && ", " || ", " ?? ", " > ", "=="}) + atom()
	case 2:
		return atom() + " ? " + atom() + " : " + atom()
	case 3:
		return atom() + "?" + atom() + ":" + atom()
	case 4:
		return atom() + " ? " + atom() + ", " + atom() + " ? " + atom()
	case 5:
		return atom() + " ? " + atom()
	case 6:
		return "(" + atom() + " ? " + atom() + " : " + atom() + ")"
	case 7:
		return atom() + " || " + atom() + " ? " + atom() + " : " + atom()
	case 8:
		return gen.DiceProgram(r)
	case 9:
		return gen.ValidProgram(r, 1, false)
	case 10:
		return atom() + "[" + atom() + ":" + atom() + "]"
	default:
		return atom() + " ? " + atom() + "|" + atom() + " : " + atom() + r.Pick([]string{"", "|" + atom(), " & " + atom()})
	}
}

func c08StList(r *fw.Rand) string {
	var sb strings.Builder
	sb.WriteString("^st")
	n := r.Range(1, 4)
	for i := 0; i < n; i++ {
		name := r.Pick([]string{"力量", "x", "hp", "敏捷", "x:y", "属性2", "'a b'", "sx"})
		v := c08StValue(r)
		switch r.Intn(9) {
		case 0, 1, 2:
			sb.WriteString(name + r.Pick([]string{":", "=", ": ", " = "}) + v)
		case 3:
			sb.WriteString(name + v)
		case 4:
			sb.WriteString("&" + name + r.Pick([]string{"=", " = ", ":"}) + v)
		case 5:
			sb.WriteString(name + r.Pick([]string{"*", "*2", "*1.5"}) + r.Pick([]string{":", "="}) + v)
		case 6:
			sb.WriteString(name + r.Pick([]string{"+", "+=", "-=", "-", " + ", " -= "}) + v)
		case 7:
			sb.WriteString(name + r.Pick([]string{":", "="}) + "(" + v + ")")
		default:
			sb.WriteString(name + r.Pick([]string{":", "="}) + v + r.Pick([]string{"", " "}) + r.Pick(gen.Tails))
		}
		sb.WriteString(r.Pick([]string{"", " ", ",", ", "}))
	}
	return sb.String()
}

// c08MacroNest puts '#EnableDice' switch lines where the parser reaches them inside a look-ahead
// first (template holes and blocks, function/if/while bodies, after operators), with family
// terms before and after, complete or broken off.
func c08MacroNest(r *fw.Rand) string {
	macro := func() string {
		return "// #EnableDice " + r.Pick([]string{"wod", "coc", "fate", "doublecross"}) + " " + r.Pick([]string{"true", "false"}) + "\n"
	}
	term := func() string { return r.Pick([]string{"2a5", "a5", "b2", "p", "f", "3c8", "2a5 + f", "b + 1", "x", "d6", "a5 = 3", "f(1)", "c"}) }
	inner := macro() + r.Pick([]string{"", " "}) + term()
	var nest string
	switch r.Intn(8) {
	case 0:
		nest = "`{ " + inner + " }`"
	case 1:
		nest = "`{% " + inner + " %}`"
	case 2:
		nest = "`a{" + inner + "}b{ " + term() + " }`"
	case 3:
		nest = "func g() {\n" + inner + " }; g()"
	case 4:
		nest = "if 1 {\n" + inner + " }"
	case 5:
		nest = "i = 0; while i < 1 {\n" + inner + "; i = i + 1 }"
	case 6:
		nest = "`{% " + inner + "; `{ " + macro() + term() + " }` %}`"
	default:
		nest = "[" + term() + ", `{" + inner + "}`]"
	}
	pre := r.Pick([]string{"", "", term() + " + ", term() + "; ", "1 + ", term() + " || ", "x = " + term() + "; ", macro() + term() + "; "})
	post := r.Pick([]string{"", "", "; " + term(), " + " + term(), "\n" + macro() + term(), " " + term()})
	s := pre + nest + post
	if r.P(1, 4) && len(s) > 2 {
		// broken off somewhere in the second half
		s = s[:len(s)/2+r.Intn(len(s)/2)]
		for len(s) > 0 && !utf8.ValidString(s) {
			s = s[:len(s)-1]
		}
	}
	return s
}

// c08Adjacent glues a term that may end in a dice letter, a default-sided die or a keyword-like
// token to every operator token and a following operand, with and without blanks: the places
// where a longer token or another rule's look-ahead could claim the operator.
func c08Adjacent(r *fw.Rand) string {
	term := r.Pick([]string{"2d", "d", "3d6", "2d6kh", "2d6k", "4d6dl", "d20优势", "f", "b", "p2", "3a8", "2c8", "a5", "x", "2", "1.5", "(1+1)d", "4d", "2d6q1", "xs[0]", "`t`", "'s'", "f(1)", "2d6min2", "1d1max"})
	op := r.Pick([]string{"%", "%%", "+", "-", "*", "/", "//", "**", "^", "<", "<=", "==", "!=", ">=", ">", "&", "&&", "|", "||", "?", ":", "??", ",", ".", "..", "=", "!", "~", "@", "#", "$", "k", "q", "d", "m", "kh", "min", "max"})
	operand := r.Pick([]string{"4", "(2)", "x", "d6", "2d", "k1", "'s'", "[1]", "", "1 : 2", "-1", "(", "%"})
	sp1, sp2 := r.Pick([]string{"", "", " "}), r.Pick([]string{"", "", " "})
	pre := r.Pick([]string{"", "", "1 + ", "x = ", "10 - (", "[", "&c = ", "func g() { ", "`{"})
	post := map[string]string{"10 - (": ")", "[": "]", "func g() { ": " }; g()", "`{": "}`"}[pre]
	return pre + term + sp1 + op + sp2 + operand + post
}

// c08LoopFunc nests loops, functions, computed values and template blocks in each other, with
// break / continue / return at every level — in particular right after an inner construct of a
// body that has its own instruction buffer.
func c08LoopFunc(r *fw.Rand) string {
	inner := func() string {
		return r.Pick([]string{"while 0 {}", "while 0 { break }", "j = 0; while j < 2 { j = j + 1 }", "if 1 { 2 }", "j = 0; while j < 2 { j = j + 1; if j { continue } }", "`{% while 0 {} %}`", "func h() { while 0 {} }; h()", ""})
	}
	stray := func() string {
		return r.Pick([]string{"break", "continue", "if 1 { break }", "if 1 { continue }", "return 1", "", "1", "if 0 { 1 } else { break }", "`{% break %}`"})
	}
	body := inner() + "; " + stray()
	var unit string
	switch r.Intn(5) {
	case 0:
		unit = "func g() { " + body + " }; g()"
	case 1:
		unit = "&cg = `{% " + body + " %}`; cg"
	case 2:
		unit = "func g() { func k() { " + body + " }; k() }; g()"
	case 3:
		unit = "`{% func g() { " + body + " }; g() %}`"
	default:
		unit = "if 1 { func g() { " + body + " }; g() }"
	}
	switch r.Intn(4) {
	case 0:
		return "i = 0; while i < 3 { i = i + 1; " + unit + " }; i"
	case 1:
		return "i = 0; while i < 3 { i = i + 1; " + unit + "; " + stray() + " }; i"
	case 2:
		return "i = 0; while i < 2 { i = i + 1; k = 0; while k < 2 { k = k + 1; " + unit + " }; " + stray() + " }; i"
	default:
		return unit + "; " + stray()
	}
}

func c08Source(r *fw.Rand) (string, string) {
	if r.P(1, 12) {
		return c08Adjacent(r), "adjacent"
	}
	if r.P(1, 15) {
		return c08LoopFunc(r), "loop-func"
	}
	switch k := r.Intn(25); {
	case k >= 23:
		return c08MacroNest(r), "macro-nest"
	case k >= 20:
		return c08StList(r), "st-list"
	case k < 5:
		return gen.StmtNest(r, 1+r.Intn(4), false, false), "stmt-nest"
	case k < 8:
		return gen.ValidProgram(r, 3, r.Bool()), "valid"
	case k < 11:
		return gen.ValidProgram(r, 2, r.Bool()) + r.Pick(gen.Separators) + r.Pick(gen.Tails), "valid+tail"
	case k < 12:
		return gen.StmtNest(r, 2, false, false) + r.Pick(gen.Separators) + r.Pick(gen.Tails), "nest+tail"
	case k < 14:
		return gen.DiceProgram(r), "dice"
	case k < 15:
		a := gen.DiceProgram(r)
		return "x = " + a + "; " + r.Pick([]string{"x || ", "x && ", "x ? ", "x > 3 ? "}) + gen.DiceProgram(r) + r.Pick([]string{"", " : 2", ", 1 ? 3"}), "logic-dice"
	case k < 17:
		c := gen.Corpus()
		return c[r.Intn(len(c))], "corpus"
	case k < 19:
		c := gen.Corpus()
		return gen.Mutate(r, c[r.Intn(len(c))]), "mutated-corpus"
	default:
		if r.P(1, 100) {
			// bodies around and beyond the code-size capacity of nested buffers
			n := fw.PickT(r, []int{4090, 4096, 4097, 4100, 5000})
			body := strings.TrimSuffix(strings.Repeat(r.Pick([]string{"'a'+", "1+", "x ? 1 : 2; "}), n), "+")
			if strings.HasSuffix(body, "; ") {
				body += "3"
			}
			if r.Bool() {
				return "func bigf() { " + body + " }; bigf()", "oversized-body"
			}
			return "&bigc = " + body + "; bigc", "oversized-body"
		}
		return gen.Matrix(r), "matrix"
	}
}

func c08N(tier string) int {
	if tier == "thorough" {
		return 2000000
	}
	return 120000
}

func c08Case(w *fw.W, idx int, r *fw.Rand) {
	src, fam := c08Source(r)
	cfg := RandCfg(r)
	if r.P(2, 3) {
		cfg.WoD, cfg.CoC, cfg.Fate, cfg.DC = true, true, true, true
		cfg.NoStmts, cfg.NoNDice, cfg.NoBitwise = false, false, false
	}
	cfg.OpLimit = 3000
	cfg.ParseLimit = 10000000
	desc := fmt.Sprintf("cfg=%s src=%q", cfg, src)
	w.Begin(idx, desc)

	type unit struct {
		src    string
		issues []mon.BCIssue
		n      int
		depth  int
	}
	var units []unit
	mo := &hook.Monitor{Cap: 400000}
	mo.OnParsed = func(ctx *ds.Context, s string, err error) {
		if err != nil {
			return
		}
		code := ds.VerifCode(ctx)
		units = append(units, unit{src: s, issues: mon.VerifyProgram(code), n: len(code), depth: ctx.Depth()})
		for _, c := range code {
			w.SetAdd("opcodes", c.Name)
		}
	}
	hook.Set(mo)
	vm := cfg.NewVM()
	var perr, rerr error
	ran := false
	pv, st := fw.Guard(func() {
		perr = vm.Parse(src)
		if perr == nil {
			ran = true
			rerr = vm.RunAfterParsed()
		}
	})
	hook.Set(nil)
	_ = rerr
	if pv != nil {
		if _, ok := pv.(hook.WorkCap); !ok {
			// crashes are C01's business, but a crash while executing accepted code is also how
			// ill-formed code shows; report it under its own key class
			w.Violate(idx, "panic", fw.PanicKey(pv, st), desc, fmt.Sprintf("%v\n%s", pv, trimStack(st)), nil)
		}
	}
	w.Eval(1)
	w.Count("family_"+fam, 1)
	if perr != nil {
		w.Count("rejected", 1)
		return
	}
	w.Count("accepted", 1)
	w.Count("programs_verified", int64(len(units)))
	if len(units) > 1 {
		w.Count("lazy_bodies_verified", int64(len(units)-1))
	}
	// leak classification for the top-level unit: does the text handed back contribute code?
	leak := ""
	if ran && rerr == nil && strings.TrimSpace(vm.RestInput) != "" {
		vm2 := cfg.NewVM()
		var l1, l2 string
		fw.Guard(func() {
			if vm2.Parse(vm.Matched) == nil {
				l2 = codeListing(ds.VerifCode(vm2))
			}
		})
		vm3 := cfg.NewVM()
		fw.Guard(func() {
			if vm3.Parse(src) == nil {
				l1 = codeListing(ds.VerifCode(vm3))
			}
		})
		if l1 != l2 {
			leak = stopClass(vm.RestInput)
			w.Count("leaky_programs", 1)
		}
	}
	nIssues := 0
	for ui, u := range units {
		for _, is := range u.issues {
			nIssues++
			key := "bc|" + is.Class + "|" + is.Op
			if leak != "" && ui == 0 {
				key = "bc-leak|" + is.Class + "|stop=" + leak
			}
			w.Violate(idx, "ill-formed-code", key, desc, fmt.Sprintf("unit %d (depth %d, %d instr, src %q)%s pc=%d %s: %s", ui, u.depth, u.n, trunc(u.src, 120), is.Path, is.PC, is.Op, is.Msg), nil)
		}
	}
	if units != nil && units[0].n > 3 {
		w.Note(fw.Hash64(src, cfg.String()))
	}
	if idx%5000 == 11 {
		w.Sample(map[string]any{"family": fam, "cfg": cfg.String(), "src": trunc(src, 200), "units": len(units), "instructions": units[0].n, "issues": nIssues})
	}
}

func init() {
	fw.Register(&fw.Prop{
		ID:      "C08",
		AsLimit: true,
		NCases:  c08N,
		Run:     c08Case,
		Floors: func(tier string) map[string]int64 {
			return map[string]int64{"accepted": 15000, "programs_verified": 15000, "lazy_bodies_verified": 300, "family_stmt-nest": 5000}
		},
		Rule:     "case = source from 9 families (statement nests with break/continue/return at every position, valid programs, valid+tail, dice/logic chains, corpus, mutations, operand matrix) × configuration; every program that Parse accepts (top-level and lazily compiled bodies) is verified over all CFG paths: stack height ≥ pops, jump targets/patching, block/template/dice depth agreement at merges, roll/annotation state set up on every path, unknown opcodes. non-trivial = accepted program with >3 instructions; distinct = hash(source, configuration)",
		Assumptions: []string{"per-opcode stack effects are written from the dispatch loop in rollvm.go", "heights are checked against the absolute stack floor"},
	})
}
