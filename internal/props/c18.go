package props

import (
	"fmt"
	"strings"

	ds "github.com/sealdice/dicescript"

	"verif/internal/fw"
)

// C18 — the st command reports every attribute edit once, in order, verbatim.

type stExp struct {
	typ, name, val, extra, op, detail string
}

var stCJK = []string{"力量", "敏捷", "智力", "体质", "外貌", "教育", "意志", "幸运", "斗殴", "闪避", "図書館", "한글"}
var stLatin = []string{"STR", "hp", "san", "_x", "Luck", "ZZ", "wis"} // never start with a dice letter (a b c d f p k q m)

type stValue struct{ text, canon string }

// stNum writes a decimal integer the way players do, now and then with leading zeros (`08`, `010`):
// a number is decimal whatever its first digit is.
func stNum(r *fw.Rand, n int) string {
	if r.P(1, 4) {
		return strings.Repeat("0", 1+r.Intn(2)) + fmt.Sprint(n)
	}
	return fmt.Sprint(n)
}

func stGenValue(r *fw.Rand) stValue {
	switch r.Intn(9) {
	case 0:
		n := r.Intn(100)
		return stValue{stNum(r, n), fmt.Sprintf("i%d", n)}
	case 1:
		return stValue{"60.5", Canon(ds.NewFloatVal(60.5))}
	case 2:
		n := 1 + r.Intn(5)
		return stValue{fmt.Sprintf("%dd1", n), fmt.Sprintf("i%d", n)}
	case 3:
		a, b := r.Intn(10), r.Intn(10)
		return stValue{fmt.Sprintf("(%d+%d)", a, b), fmt.Sprintf("i%d", a+b)}
	case 4:
		a, b := 1+r.Intn(5), r.Intn(20)
		return stValue{fmt.Sprintf("%dd1+%s", a, stNum(r, b)), fmt.Sprintf("i%d", a+b)}
	case 5:
		a, b := r.Intn(10), 1+r.Intn(5)
		return stValue{fmt.Sprintf("%d*%d", a, b), fmt.Sprintf("i%d", a*b)}
	case 6:
		return stValue{".5", Canon(ds.NewFloatVal(0.5))}
	case 7:
		a := 1 + r.Intn(4)
		return stValue{fmt.Sprintf("%dd1k1", a+1), "i1"}
	default:
		n := r.Intn(1000)
		return stValue{stNum(r, n), fmt.Sprintf("i%d", n)}
	}
}

func stBlank(r *fw.Rand) string { return r.Pick([]string{"", "", " "}) }

func stGenAssign(r *fw.Rand) (string, stExp, bool) {
	v := stGenValue(r)
	cn := r.Pick(stCJK)
	paren := strings.HasPrefix(v.text, "(")
	switch r.Intn(9) {
	case 0, 8:
		return cn + v.text, stExp{"set", cn, v.canon, "NIL", "", ""}, paren
	case 1:
		eq := r.Pick([]string{":", "="})
		name := cn
		if r.P(1, 3) {
			name = r.Pick(stLatin)
		}
		return name + stBlank(r) + eq + stBlank(r) + v.text, stExp{"set", name, v.canon, "NIL", "", ""}, paren
	case 2:
		name := cn + ":" + r.Pick(stCJK)
		if r.Bool() {
			return name + v.text, stExp{"set", name, v.canon, "NIL", "", ""}, paren
		}
		return name + stBlank(r) + r.Pick([]string{":", "="}) + stBlank(r) + v.text, stExp{"set", name, v.canon, "NIL", "", ""}, paren
	case 3:
		name := cn + r.Pick([]string{"2", " 2", "12", ":x1", " a b"})
		return "'" + name + "'" + stBlank(r) + r.Pick([]string{":", "="}) + stBlank(r) + v.text, stExp{"set", name, v.canon, "NIL", "", ""}, paren
	case 4:
		return cn + stBlank(r) + "*" + stBlank(r) + r.Pick([]string{":", "="}) + stBlank(r) + v.text, stExp{"set.x0", cn, v.canon, "NIL", "", ""}, paren
	case 5:
		ex := r.Pick([]string{"2", "2.5", "(1+1)", "010", "08"})
		exr := map[string]string{"2": "i2", "2.5": Canon(ds.NewFloatVal(2.5)), "(1+1)": "i2", "010": "i10", "08": "i8"}[ex]
		return cn + stBlank(r) + "*" + stBlank(r) + ex + stBlank(r) + r.Pick([]string{":", "="}) + stBlank(r) + v.text, stExp{"set.x1", cn, v.canon, exr, "", ""}, paren
	case 6:
		e := r.Pick([]string{"1d6+2", "(1d6+2)", "2d6", "力量*2", "2", "40", ".5", "(2.5)", "((3))", "0", "1d1"})
		// a blank after the separator is part of the accepted spellings
		return "&" + cn + stBlank(r) + r.Pick([]string{":", "="}) + stBlank(r) + e, stExp{"set", cn, fmt.Sprintf("cv(%q|{})", e), "NIL", "", ""}, strings.HasSuffix(e, ")")
	default:
		// quoted name with digits (unquoted names cannot contain digits)
		name := cn + fmt.Sprint(r.Intn(100))
		return "'" + name + "'" + stBlank(r) + r.Pick([]string{":", "="}) + stBlank(r) + v.text, stExp{"set", name, v.canon, "NIL", "", ""}, paren
	}
}

func stGenModify(r *fw.Rand) (string, stExp, bool) {
	v := stGenValue(r)
	cn := r.Pick(stCJK)
	if r.P(1, 4) {
		cn = cn + ":" + r.Pick(stCJK) // namespaced names take every modification spelling too
	}
	paren := strings.HasSuffix(v.text, ")")
	switch r.Intn(8) {
	case 0:
		return cn + "+" + v.text, stExp{"mod", cn, v.canon, "NIL", "+", v.text}, paren
	case 1:
		return cn + stBlank(r) + "+=" + stBlank(r) + v.text, stExp{"mod", cn, v.canon, "NIL", "+", v.text}, paren
	case 2:
		return cn + stBlank(r) + "-=" + stBlank(r) + v.text, stExp{"mod", cn, v.canon, "NIL", "-=", v.text}, paren
	case 3:
		n := 1 + r.Intn(9)
		return cn + "-" + fmt.Sprint(n), stExp{"mod", cn, fmt.Sprintf("i%d", n), "NIL", "-", "-" + fmt.Sprint(n)}, false
	case 4:
		// chained subtraction: a-1-1 is a-2 (sign-normalised)
		a, b := 1+r.Intn(5), 1+r.Intn(5)
		txt := fmt.Sprintf("-%d-%d", a, b)
		return cn + txt, stExp{"mod", cn, fmt.Sprintf("i%d", a+b), "NIL", "-", txt}, false
	case 6:
		// the written "-expr" may evaluate to a positive number: the reported value is its negation
		a, b := r.Intn(6), r.Intn(9)
		txt := fmt.Sprintf("-(%d-%d)", a, b)
		return cn + txt, stExp{"mod", cn, fmt.Sprintf("i%d", a-b), "NIL", "-", txt}, true
	case 7:
		if r.P(1, 3) {
			// the written "-expr" may be a conditional: (-a) ? b : -c with a > 0 is b, reported negated
			a, b, c := 1+r.Intn(5), 1+r.Intn(9), 1+r.Intn(9)
			txt := fmt.Sprintf("-%d?%d:-%d", a, b, c)
			if r.Bool() {
				txt = fmt.Sprintf("-%d ? %d : -%d", a, b, c)
			}
			return cn + txt, stExp{"mod", cn, fmt.Sprintf("i%d", -b), "NIL", "-", txt}, false
		}
		a, b := 1+r.Intn(5), r.Intn(9)
		txt := fmt.Sprintf("-%d+%d", a, b)
		return cn + txt, stExp{"mod", cn, fmt.Sprintf("i%d", a-b), "NIL", "-", txt}, false
	default:
		name := cn + "12"
		return "'" + name + "'" + stBlank(r) + "+=" + stBlank(r) + v.text, stExp{"mod", name, v.canon, "NIL", "+", v.text}, paren
	}
}

func c18N(tier string) int {
	if tier == "thorough" {
		return 1500000
	}
	return 100000
}

func c18Case(w *fw.W, idx int, r *fw.Rand) {
	k := r.Range(1, 8)
	modify := r.P(1, 3)
	var parts []string
	var want []stExp
	var afterParen []bool
	for j := 0; j < k; j++ {
		var s string
		var e stExp
		var p bool
		if modify {
			s, e, p = stGenModify(r)
		} else {
			s, e, p = stGenAssign(r)
		}
		parts = append(parts, s)
		want = append(want, e)
		afterParen = append(afterParen, p)
	}
	src := "^st" // the grammar has no blank between ^st and the first edit
	for j, p := range parts {
		src += p
		if j < len(parts)-1 {
			sep := r.Pick([]string{"", " ", ",", ", ", " ,", "  "})
			// a parenthesised value directly followed by '&name' or by a Latin name has another
			// legal reading (bitwise & / dice letters), and a value ending in a digit followed by
			// a name with digits is ambiguous by design: separate those with a comma
			next := parts[j+1]
			if afterParen[j] && (strings.HasPrefix(next, "&") || next[0] < 0x80) {
				sep = r.Pick([]string{",", ", "})
			}
			if next[0] < 0x80 && next[0] != '\'' && !strings.ContainsAny(sep, ", ") {
				sep = " "
			}
			if strings.HasPrefix(next, "&") && !strings.Contains(sep, ",") && modify {
				sep = ","
			}
			if strings.HasPrefix(next, "'") && sep == "" {
				sep = " "
			}
			src += sep
		}
	}
	desc := fmt.Sprintf("src=%q", src)
	w.Begin(idx, desc)
	var got []stExp
	// the host's own restrictions (any subset) do not change how an st list reads: its values are
	// always parsed without statements, default-sided dice and bitwise operators
	cfg := Cfg{Seed: r.U64() | 1, NoStmts: r.P(1, 3), NoNDice: r.P(1, 3), NoBitwise: r.P(1, 3)}
	vm := cfg.NewVM()
	vm.Attrs.Store("力量", ds.NewIntVal(50))
	var kept []*ds.VMValue
	var keptCanon []string
	vm.Config.CallbackSt = func(_type string, name string, val *ds.VMValue, extra *ds.VMValue, op string, detail string) {
		got = append(got, stExp{typ: _type, name: name, val: Canon(val), extra: Canon(extra), op: op, detail: detail})
		// "val and extra are clones and may be stored" (RollConfig): keep them and look again after the run
		kept = append(kept, val, extra)
		keptCanon = append(keptCanon, Canon(val), Canon(extra))
	}
	var err error
	pv, st := fw.Guard(func() { err = vm.Run(src) })
	w.Eval(1)
	if pv != nil {
		w.Violate(idx, "panic", fw.PanicKey(pv, st), desc, fmt.Sprint(pv), nil)
		return
	}
	kind := "assign"
	if modify {
		kind = "modify"
	}
	for i, v := range kept {
		if c := Canon(v); c != keptCanon[i] {
			w.Violate(idx, "st", "st|kept-value-changed|"+kind, desc, fmt.Sprintf("the value handed to callback #%d was %s during the call and is %s after the run: it was not a copy", i/2, keptCanon[i], c), nil)
			break
		}
	}
	switch {
	case err != nil:
		w.Violate(idx, "st", "st|rejected|"+kind, desc, "a list of accepted spellings was rejected: "+firstLine(err.Error()), nil)
	case vm.RestInput != "":
		w.Violate(idx, "st", "st|rest|"+kind, desc, fmt.Sprintf("RestInput=%q after %d callbacks (want %d)", vm.RestInput, len(got), len(want)), nil)
	case fmt.Sprint(got) != fmt.Sprint(want):
		// find the first differing edit and field
		field := "count"
		for i := 0; i < len(got) && i < len(want); i++ {
			if got[i] != want[i] {
				switch {
				case got[i].typ != want[i].typ:
					field = "type"
				case got[i].name != want[i].name:
					field = "name"
				case got[i].val != want[i].val:
					field = "value"
				case got[i].extra != want[i].extra:
					field = "extra"
				case got[i].op != want[i].op:
					field = "op"
				default:
					field = "detail"
				}
				break
			}
		}
		w.Violate(idx, "st", "st|log|"+kind+"|"+field, desc, fmt.Sprintf("callback log\n got  %v\n want %v", got, want), nil)
	default:
		w.Count("lists_exact", 1)
	}
	w.Count("edits", int64(len(want)))
	w.Count("lists_"+kind, 1)
	w.Note(fw.Hash64(src))
	if idx%10000 == 0 {
		w.Sample(map[string]any{"src": src, "edits": len(want), "callbacks": len(got)})
	}
}

func init() {
	fw.Register(&fw.Prop{
		ID:     "C18",
		NCases: c18N,
		Run:    c18Case,
		Floors: func(tier string) map[string]int64 {
			return map[string]int64{"lists_exact": 50000, "lists_modify": 10000, "lists_assign": 30000, "edits": 200000}
		},
		Rule:        "case = homogeneous ^st list of 1–8 edits: names from CJK/Hangul/kana, Latin names not starting with a dice letter, namespaced x:y, quoted names with digits/spaces/colons, names ending in digits with a separator; values: ints, floats, d1 dice, parenthesised expressions, products, keep-dice; multiplier forms *: and *N:; computed &name=expr; modifications + += -= - and chained subtraction; separators none/space/comma. The recorded CallbackSt sequence must equal the expected one (type, name byte-exact, value, extra, operator, text) and nothing may be left in RestInput. distinct = hash(source) Integer values and multipliers are also written with leading zeros (010, 08).",
		Assumptions: []string{"spellings with a second legal reading (parenthesised value followed by &name or by a Latin name, unquoted name ending in a digit before a value) are not generated"},
	})
}
