package props

import (
	"fmt"
	"strings"

	ds "github.com/sealdice/dicescript"

	"verif/internal/fw"
	"verif/internal/gen"
	"verif/internal/hook"
)

// C16 — disabled syntax stays disabled: flags gate what input can do.

var c16Alphabet = []string{"a", "b", "c", "f", "p", "d", "A", "F", "m", "k", "q", "1", "2", "0", "(", ")", "+", " "}

func opFamily(name string) string {
	switch {
	case strings.HasPrefix(name, "coc."):
		return "coc"
	case strings.HasPrefix(name, "wod.") || name == "dice.wod":
		return "wod"
	case name == "dice.fate":
		return "fate"
	case strings.HasPrefix(name, "dc.") || name == "dice.dc":
		return "dc"
	}
	return ""
}

type c16Finding struct{ key, msg string }

// c16Scan checks one compiled unit against the configuration it was compiled under.
func c16Scan(code []ds.VerifOp, cfg ds.RollConfig, hasMacro bool, out *[]c16Finding, path string) {
	for pc, op := range code {
		if f := opFamily(op.Name); f != "" && !hasMacro {
			en := map[string]bool{"coc": cfg.EnableDiceCoC, "wod": cfg.EnableDiceWoD, "fate": cfg.EnableDiceFate, "dc": cfg.EnableDiceDoubleCross}[f]
			if !en {
				*out = append(*out, c16Finding{"flags|family-opcode|" + f, fmt.Sprintf("%s pc=%d: %s compiled although the %s family is disabled and the source has no macro", path, pc, op.Name, f)})
			}
		}
		if cfg.DisableStmts {
			switch op.Name {
			case "push.func", "block.push", "block.pop", "ret":
				*out = append(*out, c16Finding{"flags|stmt-opcode|" + op.Name, fmt.Sprintf("%s pc=%d: %s compiled although statements are disabled", path, pc, op.Name)})
			case "jmp", "jne", "je", "je.dup":
				if op.HasInt && op.Int < 0 {
					*out = append(*out, c16Finding{"flags|stmt-opcode|backward-jump", fmt.Sprintf("%s pc=%d: backward jump (loop) compiled although statements are disabled", path, pc)})
				}
			}
		}
		if cfg.DisableNDice && op.Name == "push.def_expr" {
			*out = append(*out, c16Finding{"flags|ndice-opcode", fmt.Sprintf("%s pc=%d: default-sides dice compiled although DisableNDice is set", path, pc)})
		}
		if cfg.DisableBitwiseOp && (op.Name == "&" || op.Name == "|") {
			*out = append(*out, c16Finding{"flags|bitwise-opcode", fmt.Sprintf("%s pc=%d: bitwise operator compiled although DisableBitwiseOp is set", path, pc)})
		}
		if op.Body != nil {
			c16Scan(op.Body, cfg, hasMacro, out, path+"/"+op.Name)
		}
	}
}

// c16NoRuntime switches the run-time instruction watch off: once the host has changed the
// configuration of a VM, functions and computed values compiled before the change legitimately
// keep the meaning they were compiled with (the switches govern parsing).
var c16NoRuntime bool

// c16RegR registers the documented stream-style custom die "R<expr>": the parser reads an operand
// with ReadExpr, the handler evaluates it with ComputedExecute.
func c16RegR(vm *ds.Context) {
	_ = vm.RegCustomDiceParser(
		func(ctx *ds.Context, stream *ds.CustomDiceStream) (*ds.CustomDiceParseResult, error) {
			c, ok := stream.Read()
			if !ok || c != 'R' {
				stream.ResetAttempt()
				return &ds.CustomDiceParseResult{Matched: false}, nil
			}
			expr, matched, err := stream.ReadExpr("")
			if err != nil {
				return nil, err
			}
			if !matched {
				stream.ResetAttempt()
				return &ds.CustomDiceParseResult{Matched: false}, nil
			}
			stream.Commit()
			return &ds.CustomDiceParseResult{Groups: []string{stream.Current()}, Payload: expr, Matched: true}, nil
		},
		func(ctx *ds.Context, groups []string, raw any) (*ds.VMValue, string, error) {
			ev, ok := raw.(*ds.VMValue)
			if !ok || ev == nil {
				return ds.NewNullVal(), "", nil
			}
			res := ev.ComputedExecute(ctx, &ds.BufferSpan{})
			if ctx.Error != nil {
				return nil, "", ctx.Error
			}
			return res, "", nil
		},
	)
}

func cfgPlain(c ds.RollConfig) string {
	return fmt.Sprintf("%v %v %v %v | %v %v %v | %d %d %q | %v %v %d %v %v", c.EnableDiceWoD, c.EnableDiceCoC, c.EnableDiceFate, c.EnableDiceDoubleCross,
		c.DisableBitwiseOp, c.DisableStmts, c.DisableNDice, c.ParseExprLimit, c.OpCountLimit, c.DefaultDiceSideExpr, c.PrintBytecode, c.IgnoreDiv0, c.ParseErrorLanguage, c.DiceMinMode, c.DiceMaxMode)
}

func cfgFlags(c ds.RollConfig) string {
	return fmt.Sprintf("%v %v %v %v %v %v %v", c.EnableDiceWoD, c.EnableDiceCoC, c.EnableDiceFate, c.EnableDiceDoubleCross, c.DisableBitwiseOp, c.DisableStmts, c.DisableNDice)
}

// c16Run runs one input on vm under the monitor and reports findings.
func c16Run(w *fw.W, idx int, vm *ds.Context, src string, desc string, run bool) (accepted bool, listing string) {
	var findings []c16Finding
	mo := &hook.Monitor{Cap: 300000}
	rootFlags := cfgFlags(vm.Config)
	mo.OnParsed = func(ctx *ds.Context, s string, err error) {
		if err != nil {
			return
		}
		code := ds.VerifCode(ctx)
		hasMacro := strings.Contains(s, "#EnableDice")
		c16Scan(code, ctx.Config, hasMacro, &findings, fmt.Sprintf("unit(depth %d)", ctx.Depth()))
		if ctx.Depth() > 0 && cfgFlags(ctx.Config) != rootFlags {
			findings = append(findings, c16Finding{"flags|subvm-config", "a sub-VM compiles with flags that differ from its root VM: " + cfgFlags(ctx.Config) + " vs " + rootFlags})
		}
		if ctx.Depth() == 0 {
			listing = codeListing(code)
		}
		w.Count("units_scanned", 1)
	}
	// second line: a family die must not be rolled under a disabling configuration of the root
	// unless the input carries a macro
	hasMacroTop := strings.Contains(src, "#EnableDice")
	mo.OnRoll = nil
	// third line: whatever way code got compiled (also code handed around precompiled, e.g. by a
	// custom-dice parser's ReadExpr), no instruction that the root configuration forbids may be
	// *executed* by an input without macro
	rootC := vm.Config
	seenRT := map[string]bool{}
	mo.OnTick = func(ctx *ds.Context, pc int) {
		name := ds.VerifOpAt(ctx, pc)
		bad := ""
		if f := opFamily(name); f != "" && !hasMacroTop {
			en := map[string]bool{"coc": rootC.EnableDiceCoC, "wod": rootC.EnableDiceWoD, "fate": rootC.EnableDiceFate, "dc": rootC.EnableDiceDoubleCross}[f]
			if !en {
				bad = "flags|executed|family|" + f
			}
		}
		if rootC.DisableStmts && (name == "push.func" || name == "block.push") {
			bad = "flags|executed|stmt|" + name
		}
		if rootC.DisableNDice && name == "push.def_expr" && ctx.Depth() == 0 {
			bad = "flags|executed|ndice"
		}
		if bad != "" && !seenRT[bad] && !c16NoRuntime {
			seenRT[bad] = true
			findings = append(findings, c16Finding{bad, fmt.Sprintf("instruction %s executed at depth %d although the root configuration forbids it", name, ctx.Depth())})
		}
		w.Count("instructions_watched", 1)
	}
	before := cfgPlain(vm.Config)
	rootCfg := vm.Config
	hook.Set(mo)
	var err error
	pv, st := fw.Guard(func() {
		err = vm.Parse(src)
		if err == nil && run {
			err = vm.RunAfterParsed()
		}
	})
	hook.Set(nil)
	if pv != nil {
		if _, ok := pv.(hook.WorkCap); !ok {
			w.Violate(idx, "panic", fw.PanicKey(pv, st), desc, fmt.Sprint(pv), nil)
		}
	}
	_ = hasMacroTop
	_ = rootCfg
	if after := cfgPlain(vm.Config); after != before {
		w.Violate(idx, "flags", "flags|config-changed", desc, fmt.Sprintf("configuration changed across the evaluation: %s -> %s", before, after), nil)
	}
	for _, f := range findings {
		w.Violate(idx, "flags", f.key, desc, f.msg, nil)
	}
	return err == nil && pv == nil, listing
}

// c16RunExpr runs RunExpr under the same monitor: the expression has no macro, so it must be
// compiled under the VM's own flags.
func c16RunExpr(w *fw.W, idx int, vm *ds.Context, src string, desc string) {
	var findings []c16Finding
	mo := &hook.Monitor{Cap: 300000}
	rootFlags := cfgFlags(vm.Config)
	mo.OnParsed = func(ctx *ds.Context, s string, err error) {
		if err != nil {
			return
		}
		code := ds.VerifCode(ctx)
		c16Scan(code, ctx.Config, strings.Contains(s, "#EnableDice"), &findings, fmt.Sprintf("RunExpr unit(depth %d)", ctx.Depth()))
		if cfgFlags(ctx.Config) != rootFlags {
			findings = append(findings, c16Finding{"flags|subvm-config", "RunExpr compiles with flags that differ from the VM's: " + cfgFlags(ctx.Config) + " vs " + rootFlags})
		}
		w.Count("units_scanned", 1)
	}
	before := cfgPlain(vm.Config)
	hook.Set(mo)
	pv, st := fw.Guard(func() { _, _ = vm.RunExpr(src, false) })
	hook.Set(nil)
	if pv != nil {
		if _, ok := pv.(hook.WorkCap); !ok {
			w.Violate(idx, "panic", fw.PanicKey(pv, st), desc, fmt.Sprint(pv), nil)
		}
	}
	if cfgPlain(vm.Config) != before {
		w.Violate(idx, "flags", "flags|config-changed", desc, "configuration changed across RunExpr", nil)
	}
	for _, f := range findings {
		w.Violate(idx, "flags", f.key, desc, f.msg, nil)
	}
	w.Count("runexpr_calls", 1)
}

func c16Dims(tier string) (exLen, nSample, nProg, nSeq int) {
	if tier == "thorough" {
		return 4, 40000, 300000, 100000
	}
	return 3, 12000, 40000, 12000
}

func c16ExCount(L int) int {
	n, p := 0, 1
	for i := 1; i <= L; i++ {
		p *= len(c16Alphabet)
		n += p
	}
	return n
}

func c16ExString(i int) string {
	// i-th string in length-then-lexicographic order
	L, p := 1, len(c16Alphabet)
	for i >= p {
		i -= p
		p *= len(c16Alphabet)
		L++
	}
	s := make([]string, L)
	for k := L - 1; k >= 0; k-- {
		s[k] = c16Alphabet[i%len(c16Alphabet)]
		i /= len(c16Alphabet)
	}
	return strings.Join(s, "")
}

func c16Cfg(bits int) Cfg {
	return Cfg{WoD: bits&1 != 0, CoC: bits&2 != 0, Fate: bits&4 != 0, DC: bits&8 != 0, OpLimit: 2000, ParseLimit: 10000000, Seed: 5}
}

func c16Case(w *fw.W, idx int, r *fw.Rand) {
	exLen, nSample, nProg, _ := c16Dims(w.Tier)
	nEx := c16ExCount(exLen)
	switch {
	case idx < nEx+nSample:
		var s string
		if idx < nEx {
			s = c16ExString(idx)
		} else {
			n := r.Range(5, 8)
			for i := 0; i < n; i++ {
				s += r.Pick(c16Alphabet)
			}
		}
		w.Begin(idx, s)
		acc := 0
		for bits := 0; bits < 16; bits++ {
			vm := c16Cfg(bits).NewVM()
			ok, _ := c16Run(w, idx, vm, s, fmt.Sprintf("families=%04b src=%q", bits, s), true)
			if ok {
				acc++
			}
		}
		w.Eval(16)
		w.Count("short_spellings", 1)
		w.Count("short_parses", 16)
		w.Count("short_accepted", int64(acc))
		if acc > 0 {
			w.Note(fw.Hash64("short", s))
		}
		if idx%1500 == 0 {
			w.Sample(map[string]any{"class": "short-spelling", "src": s, "accepted_in_configs": acc})
		}
	case idx < nEx+nSample+nProg:
		var src, fam string
		switch r.Intn(8) {
		case 0, 1:
			src, fam = gen.ValidProgram(r, 3, r.Bool()), "valid"
		case 2:
			src, fam = gen.DiceProgram(r), "dice"
		case 3:
			c := gen.Corpus()
			src, fam = gen.Mutate(r, c[r.Intn(len(c))]), "mutated-corpus"
		case 4:
			src, fam = "func g() { "+gen.DiceProgram(r)+" }; g()", "dice-in-function"
		case 5:
			src, fam = "&cv = "+gen.DiceProgram(r)+"; cv + `{"+gen.DiceProgram(r)+"}`", "dice-in-computed"
		case 6:
			src, fam = "^st"+r.Pick([]string{"力量", "a", "b", "p", "f", "c"})+r.Pick([]string{"", ":", "=", "+", "+=", "-"})+gen.DiceProgram(r), "st"
			if r.Bool() {
				// lists whose later values are parenthesised and carry templates with statements,
				// bare Nd dice and bitwise operators: the st value rules disable all of these
				inner := r.Pick([]string{"`{% func f(){ 1 } %}`", "`{% if 1 { 2 } %}`", "`{% i=0; while i<2 { i=i+1 } %}`", "2d", "1|2", "3&1", "`{ 2d }`", "b2", "f", "3a8"})
				src = "^st力量60 敏捷(" + inner + ")" + r.Pick([]string{"", " 体质70", ",智力(" + inner + ")"})
			}
		default:
			src, fam = gen.StmtNest(r, 2, false, false)+"; "+gen.DiceProgram(r), "nest+dice"
		}
		cfg := RandCfg(r)
		cfg.OpLimit, cfg.ParseLimit = 3000, 10000000
		if r.P(1, 3) {
			cfg.DefSide = r.Pick([]string{"b", "f", "2a5", "3c8", "p1 + 1"})
		}
		desc := fmt.Sprintf("cfg=%s src=%q", cfg, src)
		w.Begin(idx, desc)
		vm := cfg.NewVM()
		ok, _ := c16Run(w, idx, vm, src, desc, true)
		w.Eval(1)
		w.Count("programs", 1)
		w.Count("family_"+fam, 1)
		if ok {
			w.Count("programs_accepted", 1)
			w.Note(fw.Hash64(desc))
		}
		if idx%4000 == 0 {
			w.Sample(map[string]any{"class": "program", "family": fam, "cfg": cfg.String(), "src": trunc(src, 160)})
		}
	default:
		if r.P(1, 8) {
			// the host's default-sides expression uses family dice; between two macro-free inputs
			// the host switches families off (by field assignment or through SetConfig on a copy):
			// no script value exists, so whatever the second input rolls is compiled from the
			// host's expression under the switches that hold now
			cfg := c16Cfg(15)
			cfg.OpLimit, cfg.ParseLimit = 3000, 10000000
			cfg.DefSide = r.Pick([]string{"b", "f", "2a5", "3c8", "p1 + 1", "b2 + 3c8", "f + 2a5"})
			vm := cfg.NewVM()
			c16NoRuntime = false
			first := r.Pick([]string{"d", "2d + 1", "d + d", "3d"})
			hist := []string{"def=" + cfg.DefSide, first}
			desc := fmt.Sprintf("families=1111 history=%q", hist)
			w.Begin(idx, desc)
			c16Run(w, idx, vm, first, desc, true)
			cfg2 := c16Cfg(r.Intn(16))
			cfg2.OpLimit, cfg2.ParseLimit, cfg2.DefSide = cfg.OpLimit, cfg.ParseLimit, cfg.DefSide
			how := "field assignment"
			if k3 := r.Intn(3); k3 == 0 {
				cfg2.Apply(vm)
			} else if k3 == 1 {
				// a configuration object built from scratch, as a host does per message
				how = "SetConfig(fresh)"
				nc := cfg2.NewVM().Config
				vm.SetConfig(&nc)
			} else {
				how = "SetConfig(copy)"
				nc := vm.Config
				nc.EnableDiceWoD, nc.EnableDiceCoC, nc.EnableDiceFate, nc.EnableDiceDoubleCross = cfg2.WoD, cfg2.CoC, cfg2.Fate, cfg2.DC
				vm.SetConfig(&nc)
			}
			second := r.Pick([]string{"d", "2d + 1", "d + d", "3d", first})
			hist = append(hist, "(host sets "+cfg2.String()+" by "+how+")", second)
			desc = fmt.Sprintf("families=1111 history=%q", hist)
			w.Begin(idx, desc)
			c16Run(w, idx, vm, second, desc, true)
			w.Eval(2)
			w.Count("sequences", 1)
			w.Count("default_sides_reconfigurations", 1)
			w.Note(fw.Hash64(strings.Join(hist, "|")))
			return
		}
		// sequences mixing macro lines and plain inputs on one VM
		bits := r.Intn(16)
		cfg := c16Cfg(bits)
		cfg.NoStmts, cfg.NoNDice, cfg.NoBitwise = r.P(1, 3), r.P(1, 4), r.P(1, 4)
		vm := cfg.NewVM()
		withR := r.P(1, 3)
		if withR {
			c16RegR(vm)
		}
		var hist []string
		c16NoRuntime = false
		defer func() { c16NoRuntime = false }()
		lastSrc := ""
		n := r.Range(2, 5)
		for k := 0; k < n; k++ {
			var src string
			plain := r.Pick([]string{"b2", "p", "f", "5a8", "3c8", "a10 + b", "f + p2", "c", "2c8m10", "10a10m8k6", "B", "P3", "func g(){ b }; g()", "&v = f; v", "`{5a8}`", "b p f", "i = 0; while i < 2 { i = i + 1 }; i", "if 1 { b2 }", "2d", "a5", "A5 + 1", "a10k8q2", "[a2, a3]"})
			macro := ""
			if r.Bool() {
				m := r.Range(1, 3)
				for i := 0; i < m; i++ {
					macro += "// #EnableDice " + r.Pick([]string{"wod", "coc", "fate", "doublecross", "wod", "coc", "dnd", "WoD", "CoC", "stmts", "d20", "x", "doublecross2"}) + " " + r.Pick([]string{"true", "false"}) + "\n"
				}
				if r.P(1, 6) {
					macro = "// #EnableDiceWoD true\n" // the guide's spelling: just a comment
				}
			}
			if withR && r.P(1, 2) {
				// operands of a host-defined custom die: read by ReadExpr, evaluated by the handler
				if r.P(1, 3) {
					// a custom dice term, then a switch line and/or an st list, then statements
					plain = r.Pick([]string{"R(1)", "1 + R(2)", "R1"}) + r.Pick([]string{"\n// #EnableDice coc true\n", "\n// #EnableDice fate false\n", "; ", "\n// #EnableDice dnd true\n"}) + r.Pick([]string{"i = 0; while i < 2 { i = i + 1 }; i", "if 1 { 2 }", "func gq() { 1 }; gq()", "2d", "1|2"})
				} else if r.P(1, 4) {
					plain = "^st甲:(R2) 乙:5 丙:(`{% j=0; while j<3 {j=j+1} %}{j}`)"
				} else {
					plain = "R" + r.Pick([]string{"1+2", "(2+3)*2", "`{% i = 0; while i < 3 { i = i + 1 } %}{i}`", "`{% func fff() { 42 }; fff() %}`", "`{% if 1 { 2 } %}`", "(2d)", "(1|2)", "b2", "(f)", "(3a8)", "(2c8)", "`{b2}{f}`", "(d6)"})
				}
			}
			src = macro + plain
			if k > 0 && r.P(1, 3) {
				// the host changes the configuration between two inputs; half the time the next
				// input is byte-identical to the previous one
				switch r.Intn(7) {
				case 0:
					cfg.WoD = !cfg.WoD
				case 1:
					cfg.CoC = !cfg.CoC
				case 2:
					cfg.Fate = !cfg.Fate
				case 3:
					cfg.DC = !cfg.DC
				case 4:
					cfg.NoStmts = !cfg.NoStmts
				case 5:
					cfg.NoNDice = !cfg.NoNDice
				default:
					cfg.WoD, cfg.CoC, cfg.Fate, cfg.DC = false, false, false, false
				}
				cfg.Apply(vm)
				c16NoRuntime = true
				if r.Bool() {
					src = lastSrc
				}
				hist = append(hist, "(host sets Config "+cfg.String()+")")
			}
			lastSrc = src
			hist = append(hist, src)
			desc := fmt.Sprintf("families=%04b history=%q", bits, hist)
			w.Begin(idx, desc)
			if k == 0 && r.P(1, 3) {
				// values without compiled code (as restored from JSON or built by the host): they are
				// compiled lazily in a sub-VM at their first use, possibly by an input carrying a macro
				if fv, err := ds.VMValueFromJSON([]byte(`{"t":8,"v":{"expr":"b2 + f + 2a8 + 2c8","name":"lazyf","params":[]}}`)); err == nil {
					vm.Attrs.Store("lazyf", fv)
				}
				vm.Attrs.Store("lazyc", ds.NewComputedVal("p1 + f"))
				hist[len(hist)-1] = "(lazyf, lazyc installed) " + src
			}
			if r.P(1, 4) {
				src2 := src + r.Pick([]string{"; lazyf()", "; lazyc", ""})
				hist[len(hist)-1] = src2
				src = src2
			}
			_, listing := c16Run(w, idx, vm, src, desc, true)
			w.Eval(1)
			if r.P(1, 3) {
				// RunExpr right after an evaluation (with or without macro)
				ex := r.Pick([]string{"b2", "f", "3a8", "2c8", "p", "lazyf()", "lazyc"})
				hist = append(hist, "RunExpr:"+ex)
				c16RunExpr(w, idx, vm, ex, fmt.Sprintf("families=%04b history=%q", bits, hist))
			}
			if !strings.Contains(src, "#EnableDice ") {
				// an input without macro must compile exactly as on a fresh VM with the same Config
				fresh := cfg.NewVM()
				if withR {
					c16RegR(fresh)
				}
				var l2 string
				fw.Guard(func() {
					if fresh.Parse(src) == nil {
						l2 = codeListing(ds.VerifCode(fresh))
					}
				})
				if listing != l2 {
					w.Violate(idx, "flags", "flags|macro-leak", desc, fmt.Sprintf("after earlier inputs the last input compiles differently from a fresh VM:\n%s\nvs fresh:\n%s", trunc(listing, 400), trunc(l2, 400)), nil)
				}
				w.Count("macro_isolation_checks", 1)
			}
		}
		w.Count("sequences", 1)
		w.Note(fw.Hash64(fmt.Sprint(bits), strings.Join(hist, "|")))
		if idx%4000 == 1 {
			w.Sample(map[string]any{"class": "macro-sequence", "families": fmt.Sprintf("%04b", bits), "history": hist})
		}
	}
}

func init() {
	fw.Register(&fw.Prop{
		ID:      "C16",
		AsLimit: true,
		NCases: func(tier string) int {
			a, b, c, d := c16Dims(tier)
			return c16ExCount(a) + b + c + d
		},
		Run: c16Case,
		Floors: func(tier string) map[string]int64 {
			return map[string]int64{"short_parses": 90000, "programs_accepted": 10000, "macro_isolation_checks": 5000, "units_scanned": 80000}
		},
		Rule:        "(1) every string of length ≤3 (quick) / ≤4 (thorough) over {a,b,c,f,p,d,A,F,m,k,q,1,2,0,(,),+,space} plus a sample of lengths 5–8, each under all 16 family settings (exhaustive for the short lengths); (2) generated programs, dice inside functions/computed values/templates, DefaultDiceSideExpr with family dice, ^st inputs × random flags incl. DisableStmts/NDice/Bitwise; (3) sequences mixing '// #EnableDice <family> <bool>' macros and plain inputs. Monitor at the parsed-program hook: no opcode of a disabled family / statement / Nd / bitwise class in any compilation unit without macro, sub-VM flags equal root flags, Config unchanged across every run, macro-free input compiles as on a fresh VM. distinct = hash(input, configuration) (4) default-sides expressions with family dice: 'd', then the host switches families off (field assignment, SetConfig on a copy, SetConfig on a fresh configuration), then 'd' again with the run-time instruction watch on.",
		Assumptions: []string{"opcodes are attributed to the compilation unit that emitted them", "macro spelling as in roll.peg: // #EnableDice <wod|coc|fate|doublecross> <true|false>"},
	})
}
