package props

import (
	"fmt"
	"runtime"
	"sort"
	"strings"
	"sync"
	"sync/atomic"
	"time"

	"github.com/anishathalye/porcupine"
	ds "github.com/sealdice/dicescript"

	"verif/internal/fw"
	"verif/internal/hook"
)

// C12 — ValueMap is a correct map, sequentially and under concurrency.
//
// Case list:
//   [0, nEx)            exhaustive sequential histories: case = fixed 2-op prefix, all
//                       extensions up to the tier's length over keys {a,b} values {1,2}
//   [nEx, nEx+nRnd)     random sequential histories (≤ 60 ops, 4 keys, promotion/expunge
//                       biased) + script-level dict observations
//   rest                concurrent histories checked with porcupine (needs the -race worker)

type vmOp struct {
	kind string
	k    string
	v    int
}

var c12Ops = func() []vmOp {
	var ops []vmOp
	for _, k := range []string{"a", "b"} {
		for _, v := range []int{1, 2} {
			ops = append(ops, vmOp{"Store", k, v}, vmOp{"LoadOrStore", k, v})
		}
		ops = append(ops, vmOp{"Load", k, 0}, vmOp{"LoadAndDelete", k, 0}, vmOp{"Delete", k, 0})
	}
	ops = append(ops, vmOp{"Clear", "", 0}, vmOp{"Range", "", 0}, vmOp{"Length", "", 0})
	return ops
}()

func rdInt(v *ds.VMValue) int {
	if v == nil {
		return 0
	}
	i, _ := v.ReadInt()
	return int(i)
}

// applySeq applies one operation to both the real map and the model and returns a
// non-empty description when they disagree.
func c12Apply(m *ds.ValueMap, model map[string]int, o vmOp, vals func(int) *ds.VMValue) string {
	switch o.kind {
	case "Store":
		m.Store(o.k, vals(o.v))
		model[o.k] = o.v
	case "LoadOrStore":
		act, loaded := m.LoadOrStore(o.k, vals(o.v))
		mv, ok := model[o.k]
		if !ok {
			model[o.k] = o.v
			mv = o.v
		}
		if loaded != ok || rdInt(act) != mv {
			return fmt.Sprintf("LoadOrStore(%s,%d) got (%d,%v) want (%d,%v)", o.k, o.v, rdInt(act), loaded, mv, ok)
		}
	case "Load":
		v, ok := m.Load(o.k)
		mv, mok := model[o.k]
		if ok != mok || rdInt(v) != mv {
			return fmt.Sprintf("Load(%s) got (%d,%v) want (%d,%v)", o.k, rdInt(v), ok, mv, mok)
		}
	case "MustLoad":
		v := m.MustLoad(o.k)
		mv := model[o.k]
		if rdInt(v) != mv {
			return fmt.Sprintf("MustLoad(%s) got %d want %d", o.k, rdInt(v), mv)
		}
	case "LoadAndDelete":
		v, ok := m.LoadAndDelete(o.k)
		mv, mok := model[o.k]
		delete(model, o.k)
		if ok != mok || rdInt(v) != mv {
			return fmt.Sprintf("LoadAndDelete(%s) got (%d,%v) want (%d,%v)", o.k, rdInt(v), ok, mv, mok)
		}
	case "Delete":
		m.Delete(o.k)
		delete(model, o.k)
	case "Clear":
		m.Clear()
		for k := range model {
			delete(model, k)
		}
	case "Range":
		var got []string
		seen := map[string]int{}
		m.Range(func(k string, v *ds.VMValue) bool {
			got = append(got, fmt.Sprintf("%s=%d", k, rdInt(v)))
			seen[k]++
			return true
		})
		var want []string
		for k, v := range model {
			want = append(want, fmt.Sprintf("%s=%d", k, v))
		}
		sort.Strings(got)
		sort.Strings(want)
		if strings.Join(got, ",") != strings.Join(want, ",") {
			return fmt.Sprintf("Range visited %v want %v", got, want)
		}
	case "RangeStop":
		// stop after the first pair: exactly one live pair must have been visited (if any)
		n := 0
		var gk string
		var gv int
		m.Range(func(k string, v *ds.VMValue) bool { n++; gk, gv = k, rdInt(v); return false })
		if len(model) == 0 && n != 0 {
			return fmt.Sprintf("Range on empty map visited %d", n)
		}
		if len(model) > 0 && (n != 1 || model[gk] != gv) {
			return fmt.Sprintf("Range(stop) visited n=%d %s=%d model=%v", n, gk, gv, model)
		}
	case "Length":
		if g := m.Length(); g != len(model) {
			return fmt.Sprintf("Length got %d want %d", g, len(model))
		}
	case "JSON":
		for _, mv := range model {
			if mv == 0 {
				return "" // a nil value is a map matter, not a JSON matter: skip the round trip
			}
		}
		b, err := m.ToJSON()
		if err != nil {
			return "ToJSON error: " + err.Error()
		}
		m2 := &ds.ValueMap{}
		if err := m2.UnmarshalJSON(b); err != nil {
			return "UnmarshalJSON error: " + err.Error()
		}
		cnt := 0
		bad := ""
		m2.Range(func(k string, v *ds.VMValue) bool {
			cnt++
			if model[k] != rdInt(v) {
				bad = fmt.Sprintf("JSON round trip %s=%d model=%v", k, rdInt(v), model)
			}
			return true
		})
		if bad != "" {
			return bad
		}
		if cnt != len(model) {
			return fmt.Sprintf("JSON round trip has %d keys, model %d (%s)", cnt, len(model), b)
		}
	}
	return ""
}

func c12Key(kind string) string { return "valuemap-seq|" + kind }

func c12Dims(tier string) (nEx, nRnd, nScript, nConc int, exLen int) {
	if tier == "thorough" {
		return 17 * 17, 300000, 20000, 100000, 6
	}
	return 17 * 17, 30000, 2000, 8000, 5
}

func c12Exhaustive(w *fw.W, idx int, maxLen int) {
	vobj := map[int]*ds.VMValue{1: ds.NewIntVal(1), 2: ds.NewIntVal(2)}
	vals := func(i int) *ds.VMValue { return vobj[i] }
	p0, p1 := idx/17, idx%17
	seq := make([]int, maxLen)
	seq[0], seq[1] = p0, p1
	var total, nontriv int64
	run := func(n int) {
		total++
		m := &ds.ValueMap{}
		model := map[string]int{}
		var hist []string
		writes := 0
		for i := 0; i < n; i++ {
			o := c12Ops[seq[i]]
			hist = append(hist, fmt.Sprintf("%s(%s,%d)", o.kind, o.k, o.v))
			if o.kind == "Store" || o.kind == "LoadOrStore" {
				writes++
			}
			if bad := c12Apply(m, model, o, vals); bad != "" {
				w.Violate(idx, "mismatch", c12Key(o.kind), strings.Join(hist, " "), bad, nil)
				return
			}
		}
		if writes > 0 && n >= 2 {
			nontriv++
			// all enumerated histories are distinct by construction
			w.Note(fw.Hash64("ex", fmt.Sprint(seq[:n])))
		}
	}
	var rec func(depth, n int)
	rec = func(depth, n int) {
		if depth == n {
			run(n)
			return
		}
		for i := range c12Ops {
			seq[depth] = i
			rec(depth+1, n)
		}
	}
	if p1 == 0 { // length-1 histories are attached to the (p0, 0) case
		run(1)
	}
	for n := 2; n <= maxLen; n++ {
		rec(2, n)
	}
	w.Eval(total)
	w.Count("seq_exhaustive_histories", total)
	w.Count("seq_exhaustive_nontrivial", nontriv)
	if idx == 0 {
		w.Sample(map[string]any{"class": "exhaustive", "prefix": []string{c12Ops[p0].kind, c12Ops[p1].kind}, "max_len": maxLen, "ops_per_step": len(c12Ops)})
	}
}

func c12Random(w *fw.W, idx int, r *fw.Rand) {
	keys := []string{"a", "b", "c", "d"}
	vobj := map[int]*ds.VMValue{}
	vals := func(i int) *ds.VMValue {
		if i == 0 {
			return nil // a key may be stored with a nil value: it is still a key
		}
		if vobj[i] == nil {
			vobj[i] = ds.NewIntVal(ds.IntType(i))
		}
		return vobj[i]
	}
	m := &ds.ValueMap{}
	model := map[string]int{}
	n := r.Range(4, 60)
	var hist []string
	kinds := []string{"Store", "Store", "LoadOrStore", "Load", "Load", "Load", "MustLoad", "LoadAndDelete", "Delete", "Delete", "Range", "RangeStop", "Length", "Length", "Clear", "JSON"}
	for i := 0; i < n; i++ {
		var o vmOp
		if r.P(1, 6) {
			// pattern steps that drive promotion / expunge transitions
			pat := r.Intn(4)
			switch pat {
			case 0:
				o = vmOp{"Load", "zz", 0} // miss → counts towards promotion
			case 1:
				o = vmOp{"Range", "", 0}
			case 2:
				o = vmOp{"Delete", r.Pick(keys), 0}
			default:
				o = vmOp{"Length", "", 0}
			}
		} else {
			o = vmOp{r.Pick(kinds), r.Pick(keys), r.Intn(10)} // value 0 = nil
		}
		hist = append(hist, fmt.Sprintf("%s(%s,%d)", o.kind, o.k, o.v))
		if bad := c12Apply(m, model, o, vals); bad != "" {
			w.Violate(idx, "mismatch", c12Key(o.kind), strings.Join(hist, " "), bad, nil)
			break
		}
	}
	rl, dl, am, _ := ds.VerifValueMapStats(m)
	if am {
		w.Count("seq_random_end_amended", 1)
	}
	if rl > 0 && dl == 0 {
		w.Count("seq_random_end_promoted", 1)
	}
	w.Eval(1)
	w.Count("seq_random_histories", 1)
	w.Note(fw.Hash64("rnd", strings.Join(hist, " ")))
	if idx%1000 == 0 {
		w.Sample(map[string]any{"class": "random-sequential", "history": strings.Join(hist, " ")})
	}
}

// script-level observations: len(), truthiness and == of dicts must agree with the model
func c12Script(w *fw.W, idx int, r *fw.Rand) {
	vm := ds.NewVM()
	// build two dicts through the Go API of the dict value with deletions and promotions,
	// then compare what scripts observe
	mk := func() (*ds.VMValue, map[string]int, []string) {
		d := ds.NewDictVal(nil)
		dd, _ := d.V().ReadDictData()
		model := map[string]int{}
		var hist []string
		n := r.Range(0, 8)
		for i := 0; i < n; i++ {
			k := r.Pick([]string{"a", "b", "c"})
			switch r.Intn(5) {
			case 0, 1:
				v := 1 + r.Intn(3)
				dd.Dict.Store(k, ds.NewIntVal(ds.IntType(v)))
				model[k] = v
				hist = append(hist, fmt.Sprintf("Store(%s,%d)", k, v))
			case 2:
				dd.Dict.Delete(k)
				delete(model, k)
				hist = append(hist, fmt.Sprintf("Delete(%s)", k))
			case 3:
				dd.Dict.Range(func(string, *ds.VMValue) bool { return true })
				hist = append(hist, "Range")
			case 4:
				dd.Dict.Load("zz")
				hist = append(hist, "Load(zz)")
			}
		}
		return d.V(), model, hist
	}
	x, mx, hx := mk()
	y, my, hy := mk()
	vm.Attrs.Store("x", x)
	vm.Attrs.Store("y", y)
	input := "x: " + strings.Join(hx, " ") + " | y: " + strings.Join(hy, " ")
	eq := len(mx) == len(my)
	if eq {
		for k, v := range mx {
			if v2, ok := my[k]; !ok || v2 != v {
				eq = false
			}
		}
	}
	b2i := func(b bool) int {
		if b {
			return 1
		}
		return 0
	}
	checks := []struct {
		src  string
		want int
	}{
		{"x.len()", len(mx)}, {"y.len()", len(my)},
		{"x ? 1 : 0", b2i(len(mx) > 0)}, {"toBool(y)", b2i(len(my) > 0)},
		{"x == y", b2i(eq)}, {"y == x", b2i(eq)}, {"x != y", b2i(!eq)},
		{"x.keys().len()", len(mx)}, {"y.values().len()", len(my)},
	}
	for _, c := range checks {
		var err error
		pv, st := fw.Guard(func() { err = vm.Run(c.src) })
		if pv != nil {
			w.Violate(idx, "panic", fw.PanicKey(pv, st), input+" ; "+c.src, fmt.Sprint(pv), nil)
			continue
		}
		if err != nil {
			w.Violate(idx, "mismatch", "valuemap-script|error", input+" ; "+c.src, "error: "+err.Error(), nil)
			continue
		}
		if got := rdInt(vm.Ret); got != c.want || vm.Ret.TypeId != ds.VMTypeInt {
			key := c.src
			if strings.Contains(key, "==") || strings.Contains(key, "!=") {
				key = "=="
			} else if strings.Contains(key, "len") {
				key = "len"
			} else {
				key = "truthiness"
			}
			w.Violate(idx, "mismatch", "valuemap-script|"+key, input+" ; "+c.src, fmt.Sprintf("got %s want %d (model x=%v y=%v)", vm.Ret.ToString(), c.want, mx, my), nil)
		}
	}
	w.Eval(int64(len(checks)))
	w.Count("script_observations", int64(len(checks)))
	w.Note(fw.Hash64("script", input))
	if idx%500 == 0 {
		w.Sample(map[string]any{"class": "script-level", "history": input})
	}
}

// ------------------------------------------------------------------ concurrent part

type cIn struct {
	Op  string // store load los lad del clear
	Key string
	Val int
}
type cOut struct {
	Val int
	Ok  bool
}

func c12StepKey(st int, i cIn, o cOut) (bool, int) {
	switch i.Op {
	case "store":
		return true, i.Val
	case "load":
		return o.Ok == (st != 0) && o.Val == st, st
	case "los":
		if st != 0 {
			return o.Ok && o.Val == st, st
		}
		return !o.Ok && o.Val == i.Val, i.Val
	case "lad":
		return o.Ok == (st != 0) && o.Val == st, 0
	case "del":
		return true, 0
	}
	return false, st
}

var c12KeyModel = porcupine.Model{
	Partition: func(history []porcupine.Operation) [][]porcupine.Operation {
		m := map[string][]porcupine.Operation{}
		for _, o := range history {
			k := o.Input.(cIn).Key
			m[k] = append(m[k], o)
		}
		var keys []string
		for k := range m {
			keys = append(keys, k)
		}
		sort.Strings(keys)
		var res [][]porcupine.Operation
		for _, k := range keys {
			res = append(res, m[k])
		}
		return res
	},
	Init: func() interface{} { return 0 },
	Step: func(state, input, output interface{}) (bool, interface{}) {
		ok, ns := c12StepKey(state.(int), input.(cIn), output.(cOut))
		return ok, ns
	},
	DescribeOperation: func(input, output interface{}) string { return fmt.Sprintf("%v -> %v", input, output) },
}

// whole-map model: state is "a=1,b=7" (sorted), supports clear
type wmState string

func wmGet(s wmState, k string) int {
	for _, p := range strings.Split(string(s), ",") {
		if strings.HasPrefix(p, k+"=") {
			var v int
			fmt.Sscanf(p[len(k)+1:], "%d", &v)
			return v
		}
	}
	return 0
}
func wmSet(s wmState, k string, v int) wmState {
	var parts []string
	for _, p := range strings.Split(string(s), ",") {
		if p == "" || strings.HasPrefix(p, k+"=") {
			continue
		}
		parts = append(parts, p)
	}
	if v != 0 {
		parts = append(parts, fmt.Sprintf("%s=%d", k, v))
	}
	sort.Strings(parts)
	return wmState(strings.Join(parts, ","))
}

var c12WholeModel = porcupine.Model{
	Init: func() interface{} { return wmState("") },
	Step: func(state, input, output interface{}) (bool, interface{}) {
		st := state.(wmState)
		i := input.(cIn)
		o := output.(cOut)
		if i.Op == "clear" {
			return true, wmState("")
		}
		ok, nv := c12StepKey(wmGet(st, i.Key), i, o)
		return ok, wmSet(st, i.Key, nv)
	},
	Equal:             func(a, b interface{}) bool { return a.(wmState) == b.(wmState) },
	DescribeOperation: func(input, output interface{}) string { return fmt.Sprintf("%v -> %v", input, output) },
}

type weakObs struct {
	kind      string // range | length
	call, ret int64
	pairs     [][2]string
	length    int
	g         int
}

var c12Clock int64

func c12Concurrent(w *fw.W, idx int, r *fw.Rand) {
	whole := r.P(1, 4)
	G := r.Range(3, 8)
	nOps := r.Range(4, 12)
	keys := []string{"a", "b", "c"}[:r.Range(1, 3)]
	if whole {
		G = r.Range(2, 4)
		nOps = r.Range(3, 5)
	}
	seed := r.U64()
	// yield steering
	var yctr uint64
	var ymu sync.Mutex
	var order []string
	yf := func(point string) {
		n := atomic.AddUint64(&yctr, 1)
		h := (n*0x9E3779B97F4A7C15 ^ seed) >> 40
		ymu.Lock()
		if len(order) < 256 {
			order = append(order, point)
		}
		ymu.Unlock()
		switch h % 8 {
		case 0, 1, 2:
			runtime.Gosched()
		case 3:
			time.Sleep(time.Microsecond)
		}
	}
	hook.YieldFn.Store(&yf)
	defer hook.YieldFn.Store(nil)

	now := func() int64 { return atomic.AddInt64(&c12Clock, 1) }
	m := &ds.ValueMap{}
	var mu sync.Mutex
	var hist []porcupine.Operation
	var weak []weakObs
	var wg sync.WaitGroup
	// pre-populate and promote sometimes so that the read-only map is non-empty
	pre := r.Intn(3)
	preVals := map[string]int{}
	for i := 0; i < pre; i++ {
		k := keys[i%len(keys)]
		v := 900000 + i + 1
		m.Store(k, ds.NewIntVal(ds.IntType(v)))
		preVals[k] = v
		hist = append(hist, porcupine.Operation{ClientId: 100, Input: cIn{"store", k, v}, Call: now(), Output: cOut{}, Return: now()})
	}
	if pre > 0 && r.Bool() {
		m.Range(func(string, *ds.VMValue) bool { return true })
	}
	start := make(chan struct{})
	for g := 0; g < G; g++ {
		wg.Add(1)
		gr := fw.NewRand(r.U64())
		go func(g int, r *fw.Rand) {
			defer wg.Done()
			<-start
			for i := 0; i < nOps; i++ {
				key := r.Pick(keys)
				val := (g+1)*1000 + i + 1
				var op string
				if whole {
					op = r.Pick([]string{"store", "load", "los", "lad", "del", "clear", "load", "store"})
				} else {
					op = r.Pick([]string{"store", "store", "load", "load", "los", "lad", "del", "range", "length", "missload"})
				}
				switch op {
				case "missload":
					m.Load("zz") // drives promotion, not recorded (key zz is never written)
					continue
				case "range":
					call := now()
					var pairs [][2]string
					m.Range(func(k string, v *ds.VMValue) bool {
						pairs = append(pairs, [2]string{k, fmt.Sprint(rdInt(v))})
						return true
					})
					ret := now()
					mu.Lock()
					weak = append(weak, weakObs{kind: "range", call: call, ret: ret, pairs: pairs, g: g})
					mu.Unlock()
					continue
				case "length":
					call := now()
					l := m.Length()
					ret := now()
					mu.Lock()
					weak = append(weak, weakObs{kind: "length", call: call, ret: ret, length: l, g: g})
					mu.Unlock()
					continue
				}
				input := cIn{op, key, val}
				if op == "clear" {
					input.Key = ""
				}
				var o cOut
				call := now()
				switch op {
				case "store":
					m.Store(key, ds.NewIntVal(ds.IntType(val)))
				case "load":
					v, ok := m.Load(key)
					o = cOut{rdInt(v), ok}
				case "los":
					v, ok := m.LoadOrStore(key, ds.NewIntVal(ds.IntType(val)))
					o = cOut{rdInt(v), ok}
				case "lad":
					v, ok := m.LoadAndDelete(key)
					o = cOut{rdInt(v), ok}
				case "del":
					m.Delete(key)
				case "clear":
					m.Clear()
				}
				ret := now()
				mu.Lock()
				hist = append(hist, porcupine.Operation{ClientId: g, Input: input, Call: call, Output: o, Return: ret})
				mu.Unlock()
			}
		}(g, gr)
	}
	close(start)
	wg.Wait()
	// quiescent reads: one Load per key, recorded as ordinary operations after everything
	for _, k := range keys {
		call := now()
		v, ok := m.Load(k)
		ret := now()
		hist = append(hist, porcupine.Operation{ClientId: 101, Input: cIn{"load", k, 0}, Call: call, Output: cOut{rdInt(v), ok}, Return: ret})
	}
	// quiescent Range and Length must be exact w.r.t. the quiescent loads
	live := map[string]int{}
	for _, k := range keys {
		if v, ok := m.Load(k); ok {
			live[k] = rdInt(v)
		}
	}
	cnt := 0
	badQ := ""
	m.Range(func(k string, v *ds.VMValue) bool {
		cnt++
		if k != "zz" && live[k] != rdInt(v) {
			badQ = fmt.Sprintf("quiescent Range saw %s=%d, Load says %v", k, rdInt(v), live)
		}
		return true
	})
	describe := func() string {
		var sb strings.Builder
		sort.Slice(hist, func(i, j int) bool { return hist[i].Call < hist[j].Call })
		for _, o := range hist {
			fmt.Fprintf(&sb, "g%d %v->%v [%d,%d]; ", o.ClientId, o.Input, o.Output, o.Call, o.Return)
		}
		return sb.String()
	}
	if badQ == "" && cnt != len(live) {
		badQ = fmt.Sprintf("quiescent Range visited %d pairs, %d keys are loadable", cnt, len(live))
	}
	if badQ == "" {
		if l := m.Length(); l != len(live) {
			badQ = fmt.Sprintf("quiescent Length=%d but %d keys are live (%v)", l, len(live), live)
			w.Violate(idx, "mismatch", "valuemap-conc|quiescent-length", describe(), badQ, nil)
			badQ = ""
		}
	}
	if badQ != "" {
		w.Violate(idx, "mismatch", "valuemap-conc|quiescent", describe(), badQ, nil)
	}

	model := c12KeyModel
	cls := "key-partitioned"
	if whole {
		model = c12WholeModel
		cls = "whole-map"
	}
	res, _ := porcupine.CheckOperationsVerbose(model, hist, 60*time.Second)
	switch res {
	case porcupine.Ok:
		w.Count("conc_histories_ok_"+cls, 1)
	case porcupine.Illegal:
		w.Violate(idx, "not-linearizable", "valuemap-conc|linearizability|"+cls, describe(), "porcupine: Illegal", nil)
	default:
		w.Inconclusive(fmt.Sprintf("case %d: porcupine timeout", idx))
	}
	// weak contract of concurrent Range / Length
	for _, ob := range weak {
		if bad := c12Weak(ob, hist, keys); bad != "" {
			w.Violate(idx, "mismatch", "valuemap-conc|weak-"+ob.kind, describe(), bad, nil)
		}
		w.Count("conc_weak_"+ob.kind, 1)
	}
	w.Eval(1)
	w.Count("conc_histories", 1)
	w.Count("conc_operations", int64(len(hist)))
	w.Count("conc_yield_events", int64(atomic.LoadUint64(&yctr)))
	ymu.Lock()
	oh := fw.Hash64(order...)
	ymu.Unlock()
	w.SetAdd("yield_points", "")
	for _, p := range order {
		w.SetAdd("yield_points", p)
	}
	w.Note(fw.Hash64("conc", fmt.Sprint(oh), describe()))
	w.Note(fw.Hash64("interleaving", fmt.Sprint(oh)))
	if idx%400 == 0 {
		w.Sample(map[string]any{"class": "concurrent-" + cls, "goroutines": G, "history": trunc(describe(), 600), "porcupine": fmt.Sprint(res)})
	}
}

func trunc(s string, n int) string {
	if len(s) > n {
		return s[:n] + "…"
	}
	return s
}

// c12Weak checks the weak contract of a concurrent Range/Length against the recorded history.
func c12Weak(ob weakObs, hist []porcupine.Operation, keys []string) string {
	type wr struct{ call, ret int64 }
	isWrite := func(op string) bool { return op == "store" || op == "los" }
	isDel := func(op string) bool { return op == "lad" || op == "del" || op == "clear" }
	// definitelyLive(k): a write returned before ob.call and no delete-type op on k (or clear)
	// overlaps or follows it before ob.ret
	defLive := func(k string) bool {
		var lastW *wr
		for _, o := range hist {
			i := o.Input.(cIn)
			if i.Key == k && isWrite(i.Op) && o.Return < ob.call {
				if i.Op == "los" && o.Output.(cOut).Ok {
					continue // did not write
				}
				if lastW == nil || o.Call > lastW.call {
					lastW = &wr{o.Call, o.Return}
				}
			}
		}
		if lastW == nil {
			return false
		}
		for _, o := range hist {
			i := o.Input.(cIn)
			if (i.Key == k || i.Op == "clear") && isDel(i.Op) && o.Return > lastW.call && o.Call < ob.ret {
				return false
			}
		}
		return true
	}
	possLive := func(k string) bool {
		for _, o := range hist {
			i := o.Input.(cIn)
			if i.Key == k && isWrite(i.Op) && o.Call < ob.ret {
				return true
			}
		}
		return false
	}
	switch ob.kind {
	case "range":
		seen := map[string]bool{}
		for _, p := range ob.pairs {
			if seen[p[0]] {
				return fmt.Sprintf("Range visited key %s twice: %v", p[0], ob.pairs)
			}
			seen[p[0]] = true
			// the value must have been written to that key by a call that began before Range returned
			found := false
			for _, o := range hist {
				i := o.Input.(cIn)
				if i.Key == p[0] && isWrite(i.Op) && fmt.Sprint(i.Val) == p[1] && o.Call < ob.ret {
					found = true
				}
			}
			if !found {
				return fmt.Sprintf("Range [%d,%d] saw %s=%s which no write that began before its return stored", ob.call, ob.ret, p[0], p[1])
			}
		}
		for _, k := range keys {
			if defLive(k) && !seen[k] {
				return fmt.Sprintf("Range [%d,%d] skipped key %s which was live for the whole call; visited %v", ob.call, ob.ret, k, ob.pairs)
			}
		}
	case "length":
		lo, hi := 0, 0
		for _, k := range keys {
			if defLive(k) {
				lo++
			}
			if possLive(k) {
				hi++
			}
		}
		if ob.length < lo || ob.length > hi {
			return fmt.Sprintf("Length [%d,%d] = %d outside [%d,%d] (keys live throughout / live at some point)", ob.call, ob.ret, ob.length, lo, hi)
		}
	}
	return ""
}

func init() {
	fw.Register(&fw.Prop{
		ID:      "C12",
		Race:    true,
		HangCPU: 600, // batches of up to 16 goroutines under the race detector
		NCases: func(tier string) int {
			a, b, c, d, _ := c12Dims(tier)
			return a + b + c + d
		},
		Run: func(w *fw.W, idx int, r *fw.Rand) {
			nEx, nRnd, nScript, _, exLen := c12Dims(w.Tier)
			switch {
			case idx < nEx:
				c12Exhaustive(w, idx, exLen)
			case idx < nEx+nRnd:
				c12Random(w, idx, r)
			case idx < nEx+nRnd+nScript:
				c12Script(w, idx, r)
			default:
				c12Concurrent(w, idx, r)
			}
		},
		Decide: raceDecide,
		Floors: func(tier string) map[string]int64 {
			return map[string]int64{"seq_exhaustive_histories": 80000, "seq_random_histories": 1000, "conc_histories": 1000, "conc_yield_events": 1000, "script_observations": 1000}
		},
		Rule:        "sequential: every operation sequence up to the tier's length (4 quick / 6 thorough) over keys {a,b}, values {1,2}, 17 calls per step is enumerated (exhaustive for that sub-space) and compared call by call with a Go map; random sequences ≤60 ops over 4 keys biased to promotion/expunge; script-level len/truthiness/== of dicts; concurrent: recorded client-boundary histories (unique values) checked with porcupine per key or whole-map (with Clear), weak contract for concurrent Range/Length, quiescent contents re-read; worker built with -race. non-trivial = history with at least one write and ≥2 operations; distinct = hash of the operation list (concurrent: plus yield-point order)",
		Assumptions: []string{"concurrent Range and Length are only required to satisfy the weak (non-snapshot) contract documented for sync.Map", "race detector reports are counted from GORACE log files"},
	})
}
