package props

import (
	"encoding/json"
	"fmt"
	"strings"

	ds "github.com/sealdice/dicescript"

	"verif/internal/fw"
	"verif/internal/ref"
)

// C09 — JSON snapshot and restore of variables is transparent.

var c09Builders = []string{
	"a = 1", "b = 2.5", "s = 'héllo'", "n = null", "xs = [1, 2, 3]", "ys = []", "dd = {'k': 1, 'j': 'x'}", "ee = {}",
	"nest = [[1, [2, 's']], {'a': [1.5, null], 'b': {'c': []}}]", "big = 9223372036854775807", "neg = 0 - 5", "fl = 0.1 + 0.2", "sm = .5", "z = 0.0",
	"func f(x) { x + 1 }", "func g() {}", "func h(p, q) { if p > q { return p }; q }", "func r2() { 2d6 }", "func dflt() { d }", "func fib(n) { if n < 2 { return n }; fib(n-1) + fib(n-2) }",
	"&cv = 1 + 2", "&cd = d6 + 1", "&cdef = d + 1", "&ca = this.base + 1; &ca.base = 10", "&cn = a + 1", "&cf = f(2)", "&ce = 2d + cn",
	"xs.push(4)", "dd.z = [1]", "dd['q'] = {'w': 1}", "xs[0] = 'first'", "ys.push(xs[1])", "ee.f = 1.25", "s = s + '!'", "t = `a{a}b`", "u = \"q\\\"uo'te\"", "w = '\\n\\t\\\\'",
	"arr2 = [xs[0], [xs[1]]]", "mix = [f, &cv, dd.k]", "fd = {'fn': f, 'cv': &cv}", "e1 = E5 + 1", "func ce() { E3 * 2 }", "&cx = E2 + a",
	"bm = xs.push", "bk = dd.keys", "bc = ceil", "bs = [xs.pop, toStr]", "bd = {'m': xs.kh}",
	"big2 = [0]*500; i = 0; while i < 100 { big2.push(i); i = i + 1 }; big2.len()", "big3 = [1]*300; i = 0; while i < 250 { big3.push([i]); i = i + 1 }; 0",
	"func fam() { b2 + f + 2a8 + 2c8 }", "&cfam = p1 + f + 3a9", "func fmix() { 6a10 + 100 }", "&cmix = 2c8 + 200", "func fbit() { 6 | 1 }", "func fnd() { 2d + 1 }",
	"grid = [[0, 0], [0, 0], [0, 0]]", "rows = [{'hp': 10}, {'hp': 10}, {'hp': 10, 'mp': 1}, {'hp': 10}]", "pair = [[], [], {}, {}]", "tw = [[1], [1], [2], [1], 'x', 'x', 3, 3]", "sib = {'a': [0, 0], 'b': [0, 0], 'c': [[5], [5]]}",
	"uni = '中文🎲é'", "empty = ''", "zero = 0", "t2 = true", "lng = [1..20]", "dup = [1]*5",
}

var c09FollowUps = []string{
	"a", "a + 1", "b * 2", "s", "s + 'x'", "n ?? 5", "xs", "xs[0]", "xs[-1]", "xs.len()", "xs.sum()", "xs.push(9); xs", "xs.pop()", "ys", "dd", "dd.k", "dd['j']", "dd.keys()", "dd.len()", "dd.new = 3; dd",
	"nest", "nest[1].a", "nest[0][1][1]", "big", "big + 0", "fl", "sm + z", "f(1)", "g()", "h(1, 2)", "r2()", "dflt()", "fib(6)", "cv", "cd", "cdef", "ca", "&ca.base", "&ca.base = 20; ca", "cn", "cf", "ce",
	"t", "u", "w", "arr2", "mix", "mix[0](3)", "fd.fn(4)", "fd.cv", "e1", "ce()", "cx", "uni", "empty", "toStr(dd)", "toStr(nest)", "repr(s)", "typeId(f)", "typeId(&cv)", "&cv", "lng.sum()", "dup", "a = a + 1; a", "xs == xs", "dd == dd", "xs[0:2]", "s[1:3]", "`{xs}{dd}{cv}`", "f", "&cd", "cv.compute()", "dir(xs)",
	"fam()", "cfam", "fmix()", "cmix", "fbit()", "fnd()", "bm(7); xs", "bk()", "bc(1.5)", "bs[1](2)", "bd.m(1)", "big2.len()", "big2[550]", "big3.len()", "bm",

	"grid[0][0] = 1; grid", "grid[2][1] = 7; grid[1]", "rows[1].hp = 3; rows", "rows[3].hp = rows[0].hp - 1; rows[0]", "pair[0].push(1); pair", "pair[3].k = 1; pair", "tw[1].push(5); tw", "sib.a[0] = 9; sib", "sib.c[1].push(6); sib.c", "grid", "rows", "tw",
	"hk", "hk.keys()", "hs", "hn", "toStr(hk)", "&hc.at", "hf()", "ht", "hs + hs", "hk == hk",
}

// c09HostileStr is a string literal body (no quote, backslash or brace) drawn from characters that
// JSON, Go and JavaScript escape differently: C0 controls, DEL, C1, line separators, BOM, astral
// non-printables, the replacement character, markup characters.
func c09HostileStr(r *fw.Rand) string {
	alpha := []rune{0x01, 0x07, 0x0b, 0x1f, 0x7f, 0x08, 0x0c, 0x0a, 0x09, 0x80, 0x9f, '<', '>', '&', '/', 0x2028, 0x2029, 0xfeff, 0xfffd, 0xe0001, 0x10ffff, 0x1f3b2, '"', 'a', 'k', '中', ' ', 0xad, 0x200b, 0xd7ff, 0xe000}
	n := r.Range(1, 4)
	var sb strings.Builder
	for i := 0; i < n; i++ {
		sb.WriteRune(alpha[r.Intn(len(alpha))])
	}
	return sb.String()
}

// c09HostileBuilder builds a variable whose keys / string leaves are hostile strings.
func c09HostileBuilder(r *fw.Rand) string {
	s1, s2 := c09HostileStr(r), c09HostileStr(r)
	switch r.Intn(7) {
	case 0:
		return "hk = {'" + s1 + "': 1, '" + s2 + "': [1.5]}"
	case 1:
		return "hs = '" + s1 + "'"
	case 2:
		return "dd = {}; dd['" + s1 + "'] = '" + s2 + "'"
	case 3:
		return "hn = [{'" + s1 + "': {'" + s2 + "': null}}]"
	case 4:
		return "hv = '" + s1 + "'; hk = {hv: [hv]}"
	case 5:
		return "&hc = 1; &hc.at = {'" + s1 + "': '" + s2 + "'}"
	default:
		return "func hf() { '" + s1 + "' }; ht = `" + s2 + "{1}`"
	}
}

func c09N(tier string) int {
	if tier == "thorough" {
		return 300000
	}
	return 25000
}

func c09NewVM(cfg Cfg) *ds.Context {
	vm := cfg.NewVM()
	_ = vm.RegCustomDice(`E(\d+)`, func(ctx *ds.Context, groups []string, _ any) (*ds.VMValue, string, error) {
		var k int
		fmt.Sscanf(groups[1], "%d", &k)
		return ds.NewIntVal(ds.IntType(k)), "", nil
	})
	return vm
}

// hasAliasing reports whether two different paths reach the same array/dict.
func hasAliasing(vm *ds.Context) bool {
	seen := map[any]bool{}
	alias := false
	var walk func(v *ds.VMValue, depth int)
	walk = func(v *ds.VMValue, depth int) {
		if v == nil || depth > 30 || alias {
			return
		}
		switch v.TypeId {
		case ds.VMTypeArray:
			if seen[v.Value] {
				alias = true
				return
			}
			seen[v.Value] = true
			a, _ := v.ReadArray()
			for _, e := range a.List {
				walk(e, depth+1)
			}
		case ds.VMTypeDict:
			if seen[v.Value] {
				alias = true
				return
			}
			seen[v.Value] = true
			dd, _ := v.ReadDictData()
			dd.Dict.Range(func(k string, e *ds.VMValue) bool { walk(e, depth+1); return true })
		case ds.VMTypeComputedValue:
			cd, _ := v.ReadComputed()
			if cd.Attrs != nil {
				cd.Attrs.Range(func(k string, e *ds.VMValue) bool { walk(e, depth+1); return true })
			}
		}
	}
	vm.Attrs.Range(func(k string, e *ds.VMValue) bool { walk(e, 0); return true })
	return alias
}

// c09HasNative reports whether a variable (at any depth) holds a native function or object.
func c09HasNative(vm *ds.Context) bool {
	found := false
	seen := map[any]bool{}
	var walk func(v *ds.VMValue, depth int)
	walk = func(v *ds.VMValue, depth int) {
		if v == nil || depth > 30 || found {
			return
		}
		switch v.TypeId {
		case ds.VMTypeNativeFunction, ds.VMTypeNativeObject:
			found = true
		case ds.VMTypeArray:
			if seen[v.Value] {
				return
			}
			seen[v.Value] = true
			if a, ok := v.ReadArray(); ok {
				for _, e := range a.List {
					walk(e, depth+1)
				}
			}
		case ds.VMTypeDict:
			if seen[v.Value] {
				return
			}
			seen[v.Value] = true
			if dd, ok := v.ReadDictData(); ok {
				dd.Dict.Range(func(k string, e *ds.VMValue) bool { walk(e, depth+1); return true })
			}
		case ds.VMTypeComputedValue:
			if cd, ok := v.ReadComputed(); ok && cd.Attrs != nil {
				cd.Attrs.Range(func(k string, e *ds.VMValue) bool { walk(e, depth+1); return true })
			}
		}
	}
	vm.Attrs.Range(func(k string, e *ds.VMValue) bool { walk(e, 0); return true })
	return found
}

type c09Obs struct{ err, ret, detail, vars, panicV string }

func c09Follow(vm *ds.Context, src string) (o c09Obs) {
	var err error
	pv, _ := fw.Guard(func() { err = vm.Run(src) })
	if pv != nil {
		o.panicV = fmt.Sprint(pv)
		return
	}
	if err != nil {
		o.err = "error"
	} else {
		o.ret = Canon(vm.Ret)
		fw.Guard(func() { o.detail = vm.GetDetailText() })
	}
	o.vars = CanonVars(vm)
	return
}

// c09AliasWitnesses are the fixed witnesses of the one open finding of C09: the JSON form is a
// tree, so two variables that shared one container hold separate copies after a restore, and a
// follow-up program that writes through one and reads through the other behaves differently.
// (Randomly generated states with such sharing are compared structurally only.)
var c09AliasWitnesses = [][2]string{
	{"log = []; sheet = {'log': log}", "log.push(1); sheet.log.len()"},
	{"xs = [1, 2]; ys = xs", "ys.push(3); xs.len()"},
	{"dd = {'k': 1}; box = [dd]", "dd.k = 5; box[0].k"},
}

func c09AliasWitness(w *fw.W, idx int) {
	st, follow := c09AliasWitnesses[idx][0], c09AliasWitnesses[idx][1]
	desc := fmt.Sprintf("aliasing witness state=%q follow=%q", st, follow)
	w.Begin(idx, desc)
	cfg := AllDice()
	cfg.OpLimit = 30000
	a, b := c09NewVM(cfg), c09NewVM(cfg)
	var err error
	var snap []byte
	pv, stk := fw.Guard(func() {
		if err = a.Run(st); err == nil {
			if snap, err = a.Attrs.ToJSON(); err == nil {
				err = json.Unmarshal(snap, b.Attrs)
			}
		}
	})
	w.Eval(1)
	w.Count("alias_witnesses", 1)
	if pv != nil {
		w.Violate(idx, "panic", fw.PanicKey(pv, stk), desc, fmt.Sprint(pv), nil)
		return
	}
	if err != nil {
		w.Violate(idx, "json", "json|snapshot-error", desc, err.Error(), nil)
		return
	}
	oa, ob := c09Follow(a, follow), c09Follow(b, follow)
	if oa != ob {
		w.Violate(idx, "json", "json|aliasing-lost", desc, fmt.Sprintf("original %+v\nrestored %+v", oa, ob), nil)
	}
	w.Note(fw.Hash64(desc))
}

func c09Case(w *fw.W, idx int, r *fw.Rand) {
	if idx < len(c09AliasWitnesses) {
		c09AliasWitness(w, idx)
		return
	}
	if idx%10 == 9 {
		c09Unrepresentable(w, idx, r)
		return
	}
	cfg := AllDice()
	cfg.OpLimit = 30000
	cfg.Seed = r.U64() | 1
	if r.P(1, 3) {
		cfg.DefSide = "20"
	}
	// state: k statements, some from the builder list, some from the program generator
	var stmts []string
	k := r.Range(1, 9)
	for i := 0; i < k; i++ {
		if r.P(1, 5) {
			g := ref.NewGen(r)
			stmts = append(stmts, ref.Print(r, false, g.Stmts(1, 2)))
		} else {
			if r.P(1, 8) {
				stmts = append(stmts, c09HostileBuilder(r))
			} else {
				stmts = append(stmts, r.Pick(c09Builders))
			}
		}
	}
	cut := r.Range(1, k) // snapshot after this many statements (save/restart point)
	follow := make([]string, 0, 4)
	for i := 0; i < 4; i++ {
		if r.P(1, 5) {
			g := ref.NewGen(r)
			follow = append(follow, ref.Print(r, false, g.Expr(2)))
		} else {
			follow = append(follow, r.Pick(c09FollowUps))
		}
	}
	desc := fmt.Sprintf("cfg=%s state=%q snapshot_after=%d follow=%q", cfg, stmts, cut, follow)
	w.Begin(idx, desc)
	a := c09NewVM(cfg)
	if r.Bool() {
		fw.Guard(func() { _ = a.Run(ref.Setup) })
	}
	for _, s := range stmts[:cut] {
		fw.Guard(func() { _ = a.Run(s) })
	}
	w.Eval(1)
	w.Count("states", 1)
	var snap []byte
	var err error
	pv, st := fw.Guard(func() { snap, err = a.Attrs.ToJSON() })
	if pv != nil {
		w.Violate(idx, "panic", fw.PanicKey(pv, st), desc, "Attrs.ToJSON: "+fmt.Sprint(pv), nil)
		return
	}
	if err != nil {
		// generated states hold only representable values, except cycles built by the random part
		w.Count("snapshot_errors", 1)
		cv := CanonVars(a)
		nonFinite := strings.Contains(cv, "f7ff0000000000000") || strings.Contains(cv, "ffff0000000000000") || strings.Contains(cv, "fNaN")
		if !strings.Contains(err.Error(), "循环引用") && !nonFinite {
			w.Violate(idx, "json", "json|snapshot-error", desc, "a representable state failed to serialise: "+err.Error(), nil)
		}
		return
	}
	if !json.Valid(snap) {
		w.Violate(idx, "json", "json|invalid-json", desc, "ToJSON returned invalid JSON: "+trunc(string(snap), 300), nil)
		return
	}
	if r.P(1, 4) {
		// another process-mate restores the same snapshot first, under a different configuration
		// (other dice families, no custom dice, other default sides), and uses everything in it:
		// whatever it compiles or caches must stay its own
		fc := Cfg{WoD: !cfg.WoD, CoC: !cfg.CoC, Fate: !cfg.Fate, DC: !cfg.DC, NoNDice: true, NoBitwise: true, OpLimit: 30000, Seed: 99, DefSide: "7"}
		foreign := fc.NewVM()
		fw.Guard(func() {
			if json.Unmarshal(snap, foreign.Attrs) == nil {
				for _, f := range c09FollowUps {
					_ = foreign.Run(f)
				}
				for _, f := range follow {
					_ = foreign.Run(f)
				}
				foreign.Attrs.Range(func(k string, v *ds.VMValue) bool {
					if v != nil && (v.TypeId == ds.VMTypeComputedValue || v.TypeId == ds.VMTypeFunction) {
						_ = foreign.Run(k)
						_ = foreign.Run(k + "()")
					}
					return true
				})
			}
		})
		w.Count("foreign_restores_first", 1)
	}
	b := c09NewVM(cfg)
	usedTarget := r.P(1, 3)
	if usedTarget {
		// roll back into a VM that has been in use: it holds other variables (some created after
		// its last internal promotion), which the restore must replace completely
		fw.Guard(func() { _ = b.Run(ref.Setup) })
		for i := r.Range(1, 4); i > 0; i-- {
			s := r.Pick(c09Builders)
			fw.Guard(func() { _ = b.Run(s) })
			if r.Bool() {
				fw.Guard(func() { _, _ = b.Attrs.ToJSON() }) // Range → promotion
			}
		}
		fw.Guard(func() { _ = b.Run("onlyInTarget = 12345; another = [1,2]") })
		w.Count("restores_into_used_vm", 1)
	}
	pv, st = fw.Guard(func() { err = json.Unmarshal(snap, b.Attrs) })
	if pv != nil {
		w.Violate(idx, "panic", fw.PanicKey(pv, st), desc, "Unmarshal: "+fmt.Sprint(pv), nil)
		return
	}
	if err != nil {
		if c09HasNative(a) {
			// native functions / bound methods are outside the values the property lists: a
			// snapshot holding one may be refused (with an error), it must not restore into
			// something that misbehaves
			w.Count("refused_states_with_native_values", 1)
			return
		}
		w.Violate(idx, "json", "json|restore-error", desc, "the snapshot does not decode: "+err.Error()+" / "+trunc(string(snap), 300), nil)
		return
	}
	va, vb := CanonVars(a), CanonVars(b)
	if va != vb {
		w.Violate(idx, "json", "json|structural", desc, fmt.Sprintf("restored variables differ structurally\n original %s\n restored %s\n json %s", trunc(va, 600), trunc(vb, 600), trunc(string(snap), 600)), nil)
		return
	}
	w.Count("roundtrips_equal", 1)
	// second round trip must be a fixed point
	if snap2, err2 := b.Attrs.ToJSON(); err2 != nil {
		w.Violate(idx, "json", "json|reserialise", desc, "restored state does not serialise again: "+err2.Error(), nil)
	} else {
		c := c09NewVM(cfg)
		if json.Unmarshal(snap2, c.Attrs) != nil || CanonVars(c) != va {
			w.Violate(idx, "json", "json|reserialise", desc, "second round trip differs", nil)
		}
	}
	// a decoded snapshot is a tree: no container of the restored state is reachable twice, whatever
	// the original looked like (equal siblings, shared rows) — independent values stay independent
	if hasAliasing(b) {
		w.Violate(idx, "json", "json|restored-sharing", desc, "two paths of the restored state reach the same array/dict (writing through one would show through the other)\n restored "+trunc(vb, 400)+"\n json "+trunc(string(snap), 400), nil)
		return
	}
	w.Count("restored_states_are_trees", 1)
	if hasAliasing(a) {
		w.Count("aliased_states_structural_only", 1)
		w.Note(fw.Hash64(desc))
		return
	}
	// behavioural twin: remaining state statements then the follow-ups, same generator state
	seed, _ := a.GetCurSeed()
	b.Seed = seed
	src := &ds.Context{Seed: seed}
	src.Init()
	b.RandSrc = src.RandSrc
	rest := append(append([]string{}, stmts[cut:]...), follow...)
	if usedTarget {
		// create a variable that is not in the snapshot, then read ones the rollback removed
		rest = append([]string{"fresh1 = 7", "onlyInTarget ?? 'gone'", "another ?? 'gone'"}, rest...)
		rest = append(rest, "fresh2 = 8", "onlyInTarget ?? 'gone'", "zz1 ?? zz2 ?? zz3 ?? zz4 ?? 0", "another ?? 'gone'")
	}
	for i, f := range rest {
		oa, ob := c09Follow(a, f), c09Follow(b, f)
		w.Count("followups", 1)
		if oa.panicV != "" && ob.panicV != "" {
			continue // crashes are C01's business when both sides agree
		}
		field := ""
		switch {
		case oa.panicV != ob.panicV:
			field = "panic"
		case oa.err != ob.err:
			field = "error"
		case oa.ret != ob.ret:
			field = "ret"
		case oa.detail != ob.detail:
			field = "detail"
		case oa.vars != ob.vars:
			field = "vars"
		}
		if field != "" {
			w.Violate(idx, "json", "json|behaviour|"+field, desc, fmt.Sprintf("follow-up #%d %q: original %+v\nrestored %+v", i, f, oa, ob), nil)
			break
		}
		if hasAliasing(a) {
			break // the follow-up created aliasing; later mutation could legitimately diverge
		}
	}
	if usedTarget {
		// after everything, one more snapshot of both must agree (a promotion happens here)
		sa, _ := a.Attrs.ToJSON()
		sb, _ := b.Attrs.ToJSON()
		ca, cb := c09NewVM(cfg), c09NewVM(cfg)
		if json.Unmarshal(sa, ca.Attrs) == nil && json.Unmarshal(sb, cb.Attrs) == nil && CanonVars(ca) != CanonVars(cb) && !hasAliasing(a) {
			w.Violate(idx, "json", "json|behaviour|final-state", desc, fmt.Sprintf("final snapshots differ\n original %s\n restored %s", trunc(CanonVars(ca), 500), trunc(CanonVars(cb), 500)), nil)
		}
	}
	w.Note(fw.Hash64(desc))
	if idx%800 == 0 {
		w.Sample(map[string]any{"state": stmts[:cut], "follow": rest, "json_bytes": len(snap)})
	}
}

func c09Unrepresentable(w *fw.W, idx int, r *fw.Rand) {
	src := r.Pick([]string{
		"xs = [1]; xs.push(xs)", "dd = {}; dd.me = dd", "aa = []; bb = [aa]; aa.push(bb)", "dd = {}; xs = [dd]; dd.l = xs",
		"&cv = 1; &cv.self = &cv", "dd = {'a': {'b': {}}}; dd.a.b.up = dd", "inf = 10.0 ** 400", "ninf = 0 - 10.0 ** 400", "nan = 10.0 ** 400 - 10.0 ** 400", "xs = [1, [10.0 ** 400]]", "dd = {'k': 10.0 ** 400}",
		"func f(x) { x }; xs = [f]; xs.push(xs)",
	})
	cfg := AllDice()
	cfg.OpLimit = 30000
	desc := fmt.Sprintf("unrepresentable state=%q", src)
	w.Begin(idx, desc)
	vm := cfg.NewVM()
	fw.Guard(func() { _ = vm.Run(src) })
	var b []byte
	var err error
	pv, st := fw.Guard(func() { b, err = vm.Attrs.ToJSON() })
	w.Eval(1)
	w.Count("unrepresentable_states", 1)
	if pv != nil {
		w.Violate(idx, "panic", fw.PanicKey(pv, st), desc, fmt.Sprint(pv), nil)
		return
	}
	if err == nil {
		// accepted: it must at least be valid JSON that restores to a structurally equal value
		vm2 := cfg.NewVM()
		if !json.Valid(b) || json.Unmarshal(b, vm2.Attrs) != nil || CanonVars(vm2) != CanonVars(vm) {
			w.Violate(idx, "json", "json|unrepresentable-accepted", desc, "a cyclic or non-finite value serialised without error to "+trunc(string(b), 300), nil)
		} else {
			w.Count("unrepresentable_but_roundtrips", 1)
		}
	} else {
		w.Count("unrepresentable_rejected", 1)
	}
	w.Note(fw.Hash64(desc))
}

func init() {
	fw.Register(&fw.Prop{
		ID:      "C09",
		AsLimit: true,
		NCases:  c09N,
		Run:     c09Case,
		Floors: func(tier string) map[string]int64 {
			return map[string]int64{"states": 5000, "roundtrips_equal": 4000, "followups": 8000, "unrepresentable_rejected": 300}
		},
		Rule:        "state = 1–9 statements (50 builder statements: scalars, nested containers, functions incl. empty body / default-sides dice / custom syntax, computed values with attributes, mutations; plus generated statements), snapshot (Attrs.ToJSON) after a random statement prefix = simulated restart; restore into a fresh VM; structural equality of all variables (tree comparison), second round trip is a fixed point; then the remaining statements and 4 follow-ups (70 read/call/index/mutate/extend programs + generated expressions) run on the original and the restored VM under the same generator state: error-ness, Ret, detail and variables must agree. 10%: cyclic and non-finite states must be rejected with an error. distinct = hash(state, cut, follow-ups) Every restored state must be a tree (no array/dict reachable by two paths); states with equal sibling rows (grid, rows, pair, tw, sib) and follow-ups that write through one sibling.",
		Assumptions: []string{"states with cross-variable aliasing are compared structurally only (JSON is a tree format)", "natives and bound methods are outside the property's value domain"},
	})
}
