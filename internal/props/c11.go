package props

import (
	"encoding/json"
	"fmt"
	"runtime"
	"strings"
	"sync"
	"sync/atomic"
	"time"

	ds "github.com/sealdice/dicescript"

	"verif/internal/fw"
	"verif/internal/gen"
	"verif/internal/hook"
)

// C11 — independent VMs are race-free and behave exactly as when run alone.

var c11Uniq int64

// c11Cold is true until the first batch of this worker process has run.
var c11Cold = true

type c11Job struct {
	cfg   Cfg
	progs []string
	want  []string // isolated baseline per program ("" when unseeded and dice-dependent)
}

func c11Program(r *fw.Rand) string {
	if r.P(1, 8) {
		// computed bodies and function bodies that use temporaries of the same names in every VM
		return r.Pick([]string{
			"&ta = (hp = 50) + 1; ta", "hp = 1; &tb = hp + 1; tb", "&tc = (tmp = d6) + tmp; tc + tc", "tmp = 3; &td = tmp * 2; td",
			"func fe() { hp = 9; hp + 1 }; fe()", "hp = 2; func ff() { hp }; ff()", "&tg = this.base + 1; &tg.base = 10; tg", "&th = this.base; th",
			"&ti = (acc = [1]) + acc; ti", "acc = [7]; &tj = acc + [1]; tj",
		})
	}
	switch r.Intn(17) {
	case 0, 1:
		return gen.DiceProgram(r)
	case 16:
		return gen.ValidProgram(r, 3, r.Bool())
	case 3:
		return "(" + gen.ValidProgram(r, 2, false) // parse failure → error message in the VM's language
	case 4:
		return "xs = [3,1,2]; xs.push(4); xs.kh(2) + xs.sum() + xs.len()"
	case 5:
		return "dir([]).len() + dir({}).len() + typeId(toStr)"
	case 6:
		return "`a{d6}b{% x = 2d6kh1 %}c`"
	case 7, 2:
		return r.Pick([]string{"2d + d + 3d", "d", "2d", "x = d; x + 3d"}) // default side expression cache
	case 8:
		return "func g(n) { if n < 1 { return 0 }; d4 + g(n-1) }; g(3)"
	case 9:
		return "&cv = d6 + 1; cv + cv"
	case 10:
		return "xs = [1,2,3,4,5]; xs.shuffle(); xs.rand(); xs.randSize(2)"
	case 11:
		return "dd = {'k': 1}; dd.keys(); dd.len(); dd == dd; toStr(dd)"
	case 12:
		return "load('xs') ?? store('xs', [1])"
	case 13:
		return "b2 + p1 + f + 3a8 + 2c8"
	case 14:
		return gen.StmtNest(r, 2, false, false)
	default:
		return "^st 力量60 敏捷70" // rejected ('^st ' has no blank form): a syntax error
	}
}

func c11RunOne(vm *ds.Context, src string) string {
	var err error
	pv, _ := fw.Guard(func() { err = vm.Run(src) })
	if pv != nil {
		return "PANIC " + fmt.Sprint(pv)
	}
	if err != nil {
		return "ERR " + err.Error()
	}
	out := "RET " + Canon(vm.Ret)
	fw.Guard(func() { out += " DETAIL " + vm.GetDetailText() })
	// a JSON round trip of the variables exercises the shared native tables
	if b, e := vm.Attrs.ToJSON(); e == nil {
		m := &ds.ValueMap{}
		if e2 := json.Unmarshal(b, m); e2 != nil {
			out += " JSONERR " + e2.Error()
		}
	}
	return out
}

func c11Dims(tier string) int {
	if tier == "thorough" {
		return 5000
	}
	return 260
}

func c11Case(w *fw.W, idx int, r *fw.Rand) {
	G := fw.PickT(r, []int{2, 4, 8, 16})
	per := 12
	jobs := make([]c11Job, G)
	for g := range jobs {
		c := RandCfg(r)
		c.Lang = g % 3
		c.OpLimit = 20000
		c.ParseLimit = 0
		if g%2 == 0 {
			c.Seed = r.U64() | 1
		} else {
			c.Seed = 0
		}
		if c.DefSide == "1 +" {
			c.DefSide = "20"
		}
		if r.P(1, 2) {
			// default-side expressions whose compilation depends on the VM's own flags
			c.DefSide = r.Pick([]string{"b", "f + 10", "p1 + 1", "2d6kh1", "3a8 + 6", "b"})
		}
		jobs[g].cfg = c
		for i := 0; i < per; i++ {
			jobs[g].progs = append(jobs[g].progs, c11Program(r))
		}
	}
	// A cold process (first batch of a worker) runs the concurrent phase BEFORE any baseline, so
	// that whatever the library initialises lazily on first use is first used concurrently;
	// the baselines are taken afterwards (they do not depend on the order for seeded VMs).
	cold := c11Cold
	c11Cold = false
	type diff struct {
		g, i int
		got  string
	}
	var diffs []diff
	gots := make([][]string, G)
	runBaselines := func() {
		// isolated baselines (seeded VMs only: an unseeded VM has no defined value, but it must
		// still be race- and crash-free, and its error texts must be in its own language)
		for g := range jobs {
			vm := jobs[g].cfg.NewVM()
			for _, p := range jobs[g].progs {
				jobs[g].want = append(jobs[g].want, c11RunOne(vm, p))
			}
		}
		// "as when run alone" must not depend on which other VMs ran earlier in the process either:
		// the baselines are taken a second time in reverse VM order and must be identical. The
		// second pass pads DefaultDiceSideExpr with a process-unique number of trailing blanks —
		// an expression that means the same but shares no text with any other VM's — so that any
		// process-wide state keyed by configuration text cannot serve it either.
		for g := len(jobs) - 1; g >= 0; g-- {
			if jobs[g].cfg.Seed == 0 {
				continue
			}
			c2 := jobs[g].cfg
			if c2.DefSide != "" {
				c2.DefSide += strings.Repeat(" ", int(atomic.AddInt64(&c11Uniq, 1)))
			}
			vm := c2.NewVM()
			for i, p := range jobs[g].progs {
				if got := c11RunOne(vm, p); got != jobs[g].want[i] {
					w.Violate(idx, "isolation", "isolation|depends-on-earlier-vms", fmt.Sprintf("cfg=%s program#%d=%q (history %q)", jobs[g].cfg, i, p, jobs[g].progs[:i]), fmt.Sprintf("the same seeded VM run sequentially gives\n%s\nafter other VMs ran, but\n%s\nwhen it ran before them", trunc(got, 600), trunc(jobs[g].want[i], 600)), nil)
					break
				}
			}
		}
	}
	var yctr uint64
	seed := r.U64()
	runConcurrent := func() {
		yf := func(point string) {
			n := atomic.AddUint64(&yctr, 1)
			switch ((n * 0x9E3779B97F4A7C15) ^ seed) >> 61 {
			case 0, 1:
				runtime.Gosched()
			case 2:
				time.Sleep(10 * time.Microsecond)
			}
		}
		hook.YieldFn.Store(&yf)
		defer hook.YieldFn.Store(nil)
		w.Begin(idx, fmt.Sprintf("concurrent: %d goroutines × %d programs, own VM each (even = seeded, odd = unseeded), languages by index mod 3, cold=%v", G, per, cold))
		var wg sync.WaitGroup
		start := make(chan struct{})
		for g := range jobs {
			wg.Add(1)
			go func(g int) {
				defer wg.Done()
				<-start
				vm := jobs[g].cfg.NewVM()
				out := make([]string, 0, len(jobs[g].progs))
				for _, p := range jobs[g].progs {
					out = append(out, c11RunOne(vm, p))
				}
				gots[g] = out
			}(g)
		}
		close(start)
		wg.Wait()
	}
	if cold {
		runConcurrent()
		runBaselines()
		w.Count("cold_batches_concurrent_first", 1)
	} else {
		runBaselines()
		runConcurrent()
	}
	// judge the concurrent observations against the baselines
	for g := range jobs {
		for i := range gots[g] {
			got := gots[g][i]
			seeded := jobs[g].cfg.Seed != 0
			bad := false
			if seeded {
				bad = got != jobs[g].want[i]
			} else {
				wantErr := len(jobs[g].want[i]) > 3 && jobs[g].want[i][:3] == "ERR"
				gotErr := len(got) > 3 && got[:3] == "ERR"
				if len(got) > 5 && got[:5] == "PANIC" {
					bad = true
				} else if wantErr && gotErr && isSyntaxMsg(jobs[g].want[i]) {
					bad = got != jobs[g].want[i]
				}
			}
			if bad {
				diffs = append(diffs, diff{g, i, got})
			}
		}
	}
	for _, d := range diffs {
		j := jobs[d.g]
		w.Violate(idx, "isolation", "isolation|differs-from-isolated-run", fmt.Sprintf("cfg=%s program#%d=%q (history %q)", j.cfg, d.i, j.progs[d.i], j.progs[:d.i]), fmt.Sprintf("under concurrency: %s\nin isolation:      %s", trunc(d.got, 700), trunc(j.want[d.i], 700)), nil)
	}
	w.Eval(int64(G * per))
	w.Count("concurrent_batches", 1)
	w.Count("concurrent_programs", int64(G*per))
	w.Count(fmt.Sprintf("batches_with_%d_goroutines", G), 1)
	w.Count("yield_events", int64(atomic.LoadUint64(&yctr)))
	w.Note(fw.Hash64("c11", fmt.Sprint(idx), fmt.Sprint(seed)))
	if idx%40 == 0 {
		w.Sample(map[string]any{"goroutines": G, "programs_each": per, "first_vm": jobs[0].cfg.String(), "first_programs": jobs[0].progs[:3]})
	}
}

func isSyntaxMsg(s string) bool {
	return len(s) > 4 && (containsAny(s, "语法错误") || containsAny(s, "Syntax Error"))
}

func containsAny(s, sub string) bool {
	return len(sub) > 0 && len(s) >= len(sub) && (indexOf(s, sub) >= 0)
}

func indexOf(s, sub string) int {
	for i := 0; i+len(sub) <= len(s); i++ {
		if s[i:i+len(sub)] == sub {
			return i
		}
	}
	return -1
}

func init() {
	fw.Register(&fw.Prop{
		ID:      "C11",
		Race:    true,
		HangCPU: 600, // batches of up to 16 goroutines under the race detector
		NCases:  c11Dims,
		Run:     c11Case,
		Decide:  raceDecide,
		Floors: func(tier string) map[string]int64 {
			return map[string]int64{"concurrent_programs": 15000, "batches_with_16_goroutines": 20, "batches_with_2_goroutines": 20}
		},
		MaxShards:   4,
		HangWall:    120,
		Rule:        "batch = 2/4/8/16 goroutines, each with its own VM (no shared values; even goroutines seeded, odd unseeded; three error languages; random flag sets) running 12 programs drawn from 16 shapes that touch everything shared at package level (unseeded dice → fallback generator, parse failures → error formatter, native functions and bound methods, dir(), templates, default-side expression cache, array random methods, JSON round trips, st). Worker built with -race; yield hooks in Parse/Roll widen interleavings. Every seeded result (Ret, error text, detail) must equal the isolated baseline computed beforehand; unseeded VMs must not crash and their syntax errors must be in their own language; every race report touching dicescript is a violation. distinct = batch",
		Assumptions: []string{"the race detector sees only the races of the schedules produced (batches are repeated; thorough runs 5000 batches)"},
	})
}
