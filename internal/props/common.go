package props

import (
	"fmt"
	"math"
	"os"
	"path/filepath"
	"sort"
	"strings"

	ds "github.com/sealdice/dicescript"

	"verif/internal/fw"
)

// raceDecide scans the GORACE log files of the children and reports every distinct race
// whose stacks touch dicescript.
func raceDecide(m *fw.Merged) {
	files, _ := filepath.Glob(filepath.Join(m.Dir, "race-*"))
	type rep struct {
		key   string
		text  string
		count int
	}
	reps := map[string]*rep{}
	total := 0
	for _, f := range files {
		b, err := os.ReadFile(f)
		if err != nil {
			continue
		}
		blocks := strings.Split(string(b), "==================")
		for _, blk := range blocks {
			if !strings.Contains(blk, "WARNING: DATA RACE") {
				continue
			}
			total++
			// split into stacks: sections start with "Read at", "Write at", "Previous read at", "Previous write at"
			var tops []string
			var sym string
			secs := strings.Split(blk, "\n\n")
			for _, s := range secs {
				t := strings.TrimSpace(s)
				if strings.HasPrefix(t, "Read at") || strings.HasPrefix(t, "Write at") || strings.HasPrefix(t, "Previous read at") || strings.HasPrefix(t, "Previous write at") || strings.HasPrefix(t, "WARNING: DATA RACE") {
					// first dicescript frame = accessed site; outermost dicescript frame = entry point
					var first, last string
					for _, l := range strings.Split(t, "\n") {
						l = strings.TrimSpace(l)
						if strings.HasPrefix(l, "github.com/sealdice/dicescript.") {
							fn := strings.TrimPrefix(l, "github.com/sealdice/dicescript.")
							if i := strings.LastIndex(fn, "("); i > 0 {
								fn = fn[:i]
							}
							if first == "" {
								first = fn
							}
							last = fn
						}
					}
					if first != "" {
						tops = append(tops, last+">"+first)
						if sym == "" {
							sym = first
						}
					}
				}
			}
			if len(tops) == 0 {
				m.Inconclusive = append(m.Inconclusive, "race report without dicescript frames (harness race?): "+firstLines(blk, 6))
				continue
			}
			sort.Strings(tops)
			key := "race|" + strings.Join(tops, "|")
			if reps[key] == nil {
				reps[key] = &rep{key: key, text: blk}
			}
			reps[key].count++
		}
	}
	m.Counters["race_reports_total"] += int64(total)
	m.Counters["race_reports_distinct"] += int64(len(reps))
	var keys []string
	for k := range reps {
		keys = append(keys, k)
	}
	sort.Strings(keys)
	for _, k := range keys {
		r := reps[k]
		t := r.text
		if len(t) > 6000 {
			t = t[:6000]
		}
		m.Violate("race", k, "(concurrent workload, see detail)", fmt.Sprintf("%d reports; first:\n%s", r.count, t), nil)
	}
}

func firstLines(s string, n int) string {
	l := strings.Split(strings.TrimSpace(s), "\n")
	if len(l) > n {
		l = l[:n]
	}
	return strings.Join(l, " | ")
}

// Cfg is a serialisable VM configuration used by cases.
type Cfg struct {
	WoD, CoC, Fate, DC          bool
	NoStmts, NoNDice, NoBitwise bool
	IgnoreDiv0                  bool
	Min, Max                    bool
	DefSide                     string
	OpLimit                     int64
	ParseLimit                  uint64
	Lang                        int
	Seed                        uint64 // 0 = unseeded
	SeedLen                     int    // length of the Seed bytes handed to Init (0 = the usual 16)
}

func (c Cfg) String() string {
	var fl []string
	add := func(b bool, s string) {
		if b {
			fl = append(fl, s)
		}
	}
	add(c.WoD, "wod")
	add(c.CoC, "coc")
	add(c.Fate, "fate")
	add(c.DC, "dc")
	add(c.NoStmts, "nostmts")
	add(c.NoNDice, "nondice")
	add(c.NoBitwise, "nobitwise")
	add(c.IgnoreDiv0, "div0")
	add(c.Min, "min")
	add(c.Max, "max")
	if c.DefSide != "" {
		fl = append(fl, "def="+c.DefSide)
	}
	if c.OpLimit != 0 {
		fl = append(fl, fmt.Sprintf("ops=%d", c.OpLimit))
	}
	if c.ParseLimit != 0 {
		fl = append(fl, fmt.Sprintf("parse=%d", c.ParseLimit))
	}
	if c.Lang != 0 {
		fl = append(fl, fmt.Sprintf("lang=%d", c.Lang))
	}
	if c.Seed != 0 {
		fl = append(fl, fmt.Sprintf("seed=%d", c.Seed))
	}
	if c.SeedLen != 0 {
		fl = append(fl, fmt.Sprintf("seedlen=%d", c.SeedLen))
	}
	return "{" + strings.Join(fl, ",") + "}"
}

func SeedBytes(seed uint64) []byte {
	// PCGSource.MarshalBinary is 16 bytes (high, low)
	b := make([]byte, 16)
	x := seed
	for i := 0; i < 16; i++ {
		x = x*6364136223846793005 + 1442695040888963407
		b[i] = byte(x >> 56)
	}
	return b
}

func (c Cfg) NewVM() *ds.Context {
	vm := &ds.Context{}
	if c.Seed != 0 {
		b := SeedBytes(c.Seed)
		if c.SeedLen > 0 {
			// hosts seed with whatever bytes they have (a uint64, a hash, ...): any non-nil Seed
			// makes the context a seeded one
			for len(b) < c.SeedLen {
				b = append(b, b...)
			}
			b = b[:c.SeedLen]
		}
		vm.Seed = b
	}
	vm.Init()
	c.Apply(vm)
	return vm
}

func (c Cfg) Apply(vm *ds.Context) {
	vm.Config.EnableDiceWoD = c.WoD
	vm.Config.EnableDiceCoC = c.CoC
	vm.Config.EnableDiceFate = c.Fate
	vm.Config.EnableDiceDoubleCross = c.DC
	vm.Config.DisableStmts = c.NoStmts
	vm.Config.DisableNDice = c.NoNDice
	vm.Config.DisableBitwiseOp = c.NoBitwise
	vm.Config.IgnoreDiv0 = c.IgnoreDiv0
	vm.Config.DiceMinMode = c.Min
	vm.Config.DiceMaxMode = c.Max
	vm.Config.DefaultDiceSideExpr = c.DefSide
	vm.Config.OpCountLimit = ds.IntType(c.OpLimit)
	vm.Config.ParseExprLimit = c.ParseLimit
	vm.Config.ParseErrorLanguage = c.Lang
}

func AllDice() Cfg { return Cfg{WoD: true, CoC: true, Fate: true, DC: true} }

// RandCfg draws a configuration (pairwise-ish coverage comes from independence of the bits).
func RandCfg(r *fw.Rand) Cfg {
	c := Cfg{
		WoD: r.Bool(), CoC: r.Bool(), Fate: r.Bool(), DC: r.Bool(),
		NoStmts: r.P(1, 5), NoNDice: r.P(1, 5), NoBitwise: r.P(1, 5),
		IgnoreDiv0: r.Bool(),
	}
	switch r.Intn(4) {
	case 0:
		c.Min = true
	case 1:
		c.Max = true
	}
	switch r.Intn(5) {
	case 0:
		c.DefSide = "20"
	case 1:
		c.DefSide = "面数 ?? 50"
	case 2:
		c.DefSide = "1 +"
	}
	c.Lang = r.Intn(3)
	if r.Bool() {
		c.Seed = r.U64() | 1
	}
	return c
}

// errText flattens an error for comparison/reporting.
func errText(err error) string {
	if err == nil {
		return ""
	}
	return err.Error()
}

// Canon renders a value as a canonical tree text: type-exact, floats bit-wise, dict keys
// sorted, functions by (name, params, body text), computed values by (expr, attributes).
// Containers are memoised (shared sub-structure is rendered once) and cycles are cut, so
// wide DAGs and cyclic values cost linear time.
func Canon(v *ds.VMValue) string { return newCanon().val(v) }

type canonC struct {
	memo map[any]string
	on   map[any]bool
}

func newCanon() *canonC { return &canonC{memo: map[any]string{}, on: map[any]bool{}} }

func (c *canonC) val(v *ds.VMValue) string {
	if v == nil {
		return "NIL"
	}
	switch v.TypeId {
	case ds.VMTypeInt:
		i, ok := v.ReadInt()
		if _, isInt := v.Value.(ds.IntType); !isInt || !ok {
			return "i?"
		}
		return fmt.Sprintf("i%d", int64(i))
	case ds.VMTypeFloat:
		f, _ := v.Value.(float64)
		if f != f {
			return "fNaN"
		}
		return fmt.Sprintf("f%x", math.Float64bits(f))
	case ds.VMTypeString:
		s, _ := v.Value.(string)
		return fmt.Sprintf("s%q", s)
	case ds.VMTypeNull:
		return "n"
	case ds.VMTypeArray:
		a, ok := v.Value.(*ds.ArrayData)
		if !ok || a == nil {
			return "[?]"
		}
		if s, ok := c.memo[a]; ok {
			return s
		}
		if c.on[a] {
			return "<cycle>"
		}
		c.on[a] = true
		parts := make([]string, 0, len(a.List))
		for _, e := range a.List {
			parts = append(parts, c.val(e))
		}
		delete(c.on, a)
		s := "[" + strings.Join(parts, ",") + "]"
		c.memo[a] = s
		return s
	case ds.VMTypeDict:
		dd, ok := v.Value.(*ds.DictData)
		if !ok || dd == nil || dd.Dict == nil {
			return "{?}"
		}
		return c.vmap(dd.Dict)
	case ds.VMTypeFunction:
		fd, ok := v.Value.(*ds.FunctionData)
		if !ok || fd == nil {
			return "fn?"
		}
		return fmt.Sprintf("fn(%s|%s|%q)", fd.Name, strings.Join(fd.Params, ","), fd.Expr)
	case ds.VMTypeComputedValue:
		cd, ok := v.Value.(*ds.ComputedData)
		if !ok || cd == nil {
			return "cv?"
		}
		at := "{}"
		if cd.Attrs != nil {
			at = c.vmap(cd.Attrs)
		}
		return fmt.Sprintf("cv(%q|%s)", cd.Expr, at)
	case ds.VMTypeNativeFunction:
		fd, ok := v.Value.(*ds.NativeFunctionData)
		if !ok || fd == nil {
			return "nfn?"
		}
		self := ""
		if fd.Self != nil {
			self = "@" + c.val(fd.Self)
		}
		return "nfn(" + fd.Name + self + ")"
	case ds.VMTypeNativeObject:
		od, ok := v.Value.(*ds.NativeObjectData)
		if !ok || od == nil {
			return "nobj?"
		}
		return "nobj(" + od.Name + ")"
	}
	return fmt.Sprintf("t%d", v.TypeId)
}

func (c *canonC) vmap(m *ds.ValueMap) string {
	if s, ok := c.memo[m]; ok {
		return s
	}
	if c.on[m] {
		return "<cycle>"
	}
	c.on[m] = true
	// entries are rendered in sorted key order (not in the map's random iteration order): with
	// cycles and shared sub-structure the place where a back-reference is cut depends on the order
	// of the walk, so the walk must be a function of the structure alone
	ents := map[string]*ds.VMValue{}
	m.Range(func(k string, e *ds.VMValue) bool { ents[k] = e; return true })
	keys := make([]string, 0, len(ents))
	for k := range ents {
		keys = append(keys, k)
	}
	sort.Strings(keys)
	parts := make([]string, 0, len(keys))
	for _, k := range keys {
		parts = append(parts, fmt.Sprintf("%q:%s", k, c.val(ents[k])))
	}
	delete(c.on, m)
	s := "{" + strings.Join(parts, ",") + "}"
	c.memo[m] = s
	return s
}

// CanonVars renders the variables of a VM.
func CanonVars(vm *ds.Context) string { return newCanon().vmap(vm.Attrs) }


// StLog records CallbackSt invocations.
type StLog struct{ Calls []string }

func (l *StLog) Install(vm *ds.Context) {
	vm.Config.CallbackSt = func(_type string, name string, val *ds.VMValue, extra *ds.VMValue, op string, detail string) {
		l.Calls = append(l.Calls, fmt.Sprintf("%s|%s|%s|%s|%s|%s", _type, name, Canon(val), Canon(extra), op, detail))
	}
}

func seedOf(vm *ds.Context) string {
	b, err := vm.GetCurSeed()
	if err != nil {
		return "err:" + err.Error()
	}
	return fmt.Sprintf("%x", b)
}
