package props

import (
	"fmt"
	"strings"

	ds "github.com/sealdice/dicescript"
	"golang.org/x/exp/rand"

	"verif/internal/fw"
	"verif/internal/hook"
	"verif/internal/mon"
)

// C04 — every dice outcome is legal and equals what its displayed dice imply.

type rollTap struct {
	hook.Monitor
	drawn []int64
	fams  []string
}

func newRollTap() *rollTap {
	t := &rollTap{}
	t.OnRoll = func(src *rand.PCGSource, sides ds.IntType, mode int, result ds.IntType, family string) {
		t.drawn = append(t.drawn, int64(result))
		t.fams = append(t.fams, family)
	}
	return t
}

func pcg(seed uint64) *rand.PCGSource {
	s := &rand.PCGSource{}
	s.Seed(seed)
	return s
}

func ip(v int64) *ds.IntType { x := ds.IntType(v); return &x }
func i64p(v *ds.IntType) *int64 {
	if v == nil {
		return nil
	}
	x := int64(*v)
	return &x
}

var c04Times = []int64{1, 2, 3, 4, 5, 6, 15, 100, 199, 200, 201, 300, 1000}
var c04Sides = []int64{1, 2, 3, 6, 10, 20, 100, 1 << 31, (1 << 62) + 1, (1 << 31) - 1, (1 << 31) - 2, (1 << 32) - 1, 1 << 32, 65535, 65536}

func c04N(tier string) int {
	if tier == "thorough" {
		return 12000000
	}
	return 600000
}

func c04Case(w *fw.W, idx int, r *fw.Rand) {
	kind := idx % 10
	switch {
	case kind < 4:
		c04Direct(w, idx, r)
	case kind < 7:
		if idx%50 == 6 {
			c04DefaultSides(w, idx, r)
			return
		}
		c04VM(w, idx, r)
	case kind < 8:
		c04VMMulti(w, idx, r)
	default:
		c04Illegal(w, idx, r)
	}
}

func c04Direct(w *fw.W, idx int, r *fw.Rand) {
	seed := r.U64()
	tap := newRollTap()
	hook.Set(&tap.Monitor)
	defer hook.Set(nil)
	fam := r.Intn(5)
	var desc, bad string
	pv, st := fw.Guard(func() {
		switch fam {
		case 0:
			times := fw.PickT(r, c04Times)
			sides := fw.PickT(r, c04Sides)
			mode := int64(r.Intn(5))
			cnt := int64(r.Range(-1, int(times)+1))
			var mn, mx *ds.IntType
			pickMM := func() *ds.IntType {
				switch r.Intn(7) {
				case 0:
					return ip(0)
				case 1:
					return ip(1)
				case 2:
					return ip(sides/2 + 1)
				case 3:
					return ip(sides)
				case 4:
					return ip(sides + 1)
				}
				return nil
			}
			mn, mx = pickMM(), pickMM()
			desc = fmt.Sprintf("RollCommon(seed=%d,times=%d,sides=%d,min=%v,max=%v,mode=%d,count=%d)", seed, times, sides, fmtP(mn), fmtP(mx), mode, cnt)
			w.Begin(idx, desc)
			total, detail := ds.RollCommon(pcg(seed), ds.IntType(times), ds.IntType(sides), mn, mx, ds.IntType(mode), ds.IntType(cnt), ds.IntType(cnt), 0)
			bad = mon.CheckCommon(mon.CommonParams{Times: times, Sides: sides, Min: i64p(mn), Max: i64p(mx), Mode: mode, Count: cnt}, int64(total), detail, tap.drawn)
			w.Count("direct_common", 1)
		case 1:
			bonus := r.Bool()
			n := int64(r.Intn(6))
			desc = fmt.Sprintf("RollCoC(seed=%d,bonus=%v,n=%d)", seed, bonus, n)
			w.Begin(idx, desc)
			total, detail := ds.RollCoC(pcg(seed), bonus, ds.IntType(n), 0)
			bad = mon.CheckCoC(bonus, n, int64(total), detail, tap.drawn)
			w.Count("direct_coc", 1)
		case 2:
			desc = fmt.Sprintf("RollFate(seed=%d)", seed)
			w.Begin(idx, desc)
			total, detail := ds.RollFate(pcg(seed), 0)
			bad = mon.CheckFate(int64(total), detail, tap.drawn)
			w.Count("direct_fate", 1)
		case 3:
			pool := fw.PickT(r, []int64{1, 2, 5, 14, 15, 16, 100, 101, 2000})
			points := fw.PickT(r, []int64{1, 2, 3, 6, 10, 20, 100})
			add := fw.PickT(r, []int64{0, 2, 5, 8, 10, 11, points, points + 1})
			th := fw.PickT(r, []int64{1, 5, 8, 10, points})
			ge := r.Bool()
			if add != 0 && add*3 <= points*2 {
				add = points // keep explosions finite with overwhelming probability
			}
			if add != 0 && add <= 1 {
				add = 0
			}
			desc = fmt.Sprintf("RollWoD(seed=%d,add=%d,pool=%d,points=%d,threshold=%d,ge=%v)", seed, add, pool, points, th, ge)
			w.Begin(idx, desc)
			tap.Cap = 3000000
			succ, all, rnds, detail := ds.RollWoD(pcg(seed), ds.IntType(add), ds.IntType(pool), ds.IntType(points), ds.IntType(th), ge, 0)
			bad = mon.CheckWoD(add, pool, points, th, ge, int64(succ), int64(all), int64(rnds), detail, tap.drawn)
			w.Count("direct_wod", 1)
		default:
			pool := fw.PickT(r, []int64{1, 2, 5, 14, 15, 16, 100, 101, 2000})
			points := fw.PickT(r, []int64{2, 3, 6, 10, 12, 20, 100})
			add := fw.PickT(r, []int64{2, 5, 8, 10, 11, 15, points, points + 1})
			if add*3 <= points*2 {
				add = points
			}
			if add < 2 {
				add = 2
			}
			desc = fmt.Sprintf("RollDoubleCross(seed=%d,add=%d,pool=%d,points=%d)", seed, add, pool, points)
			w.Begin(idx, desc)
			tap.Cap = 3000000
			res, all, rnds, detail := ds.RollDoubleCross(pcg(seed), ds.IntType(add), ds.IntType(pool), ds.IntType(points), 0)
			bad = mon.CheckDC(add, pool, points, int64(res), int64(all), int64(rnds), detail, tap.drawn)
			w.Count("direct_dc", 1)
		}
	})
	w.Eval(1)
	if pv != nil {
		if _, ok := pv.(hook.WorkCap); ok {
			w.Inconclusive("direct roll exceeded 3M dice: " + desc)
			return
		}
		w.Violate(idx, "panic", fw.PanicKey(pv, st), desc, fmt.Sprint(pv), nil)
		return
	}
	if bad != "" {
		w.Violate(idx, "dice-rule", "dice|direct|"+strings.SplitN(desc, "(", 2)[0]+"|"+classOf(bad), desc, bad, nil)
	}
	w.Count("dice_drawn", int64(len(tap.drawn)))
	if len(tap.drawn) > 0 {
		w.Note(fw.Hash64(desc))
	}
	if idx%9000 == 0 {
		w.Sample(map[string]any{"kind": "direct", "call": desc, "drawn": len(tap.drawn)})
	}
}

func fmtP(p *ds.IntType) string {
	if p == nil {
		return "nil"
	}
	return fmt.Sprint(int64(*p))
}

// classOf reduces an oracle message to its leading words (stable key part).
func classOf(msg string) string {
	f := strings.Fields(fw.MaskNumbers(msg))
	if len(f) > 4 {
		f = f[:4]
	}
	return strings.Join(f, " ")
}

// spellings of the XdY modifiers
var keepSpell = map[int64][]string{1: {"kl", "q", "Q"}, 2: {"kh", "k", "K"}, 3: {"dl"}, 4: {"dh"}}

func wrapNum(r *fw.Rand, v int64) string {
	if v < 0 {
		return fmt.Sprintf("(0-%d)", -v)
	}
	if r.P(1, 4) {
		return fmt.Sprintf("(%d)", v)
	}
	return fmt.Sprint(v)
}

func c04VM(w *fw.W, idx int, r *fw.Rand) {
	seed := r.U64() | 1
	cfg := AllDice()
	cfg.Seed = seed
	cfg.OpLimit = 0
	fam := r.Intn(6)
	var src string
	var check func(total int64, text string, drawn []int64) string
	// parameters of pool dice may themselves be dice terms: nested terms with a deterministic
	// value (every die of a one-sided pool shows 1) keep the rule check exact
	nested := false
	// wc: the parameter written as a number, a parenthesised number or a conditional /
	// short-circuit expression with that value
	wc := func(v int64) string {
		if v >= 1 && r.P(1, 8) {
			o := v + 1 + int64(r.Intn(3))
			return r.Pick([]string{fmt.Sprintf("(1?%d:%d)", v, o), fmt.Sprintf("(0?%d:%d)", o, v), fmt.Sprintf("(1 ? %d : %d)", v, o), fmt.Sprintf("(0 || %d)", v), fmt.Sprintf("(%d ?? %d)", v, o), fmt.Sprintf("(1 && %d)", v), fmt.Sprintf("(0 ? %d, 1 ? %d)", o, v)})
		}
		return wrapNum(r, v)
	}
	wp := func(v int64) string {
		if v >= 1 && r.P(1, 10) {
			return wc(v)
		}
		if v >= 1 && v <= 300 && r.P(1, 8) {
			nested = true
			return r.Pick([]string{fmt.Sprintf("(%da11m1k1)", v), fmt.Sprintf("(%dd1)", v), fmt.Sprintf("(%da0m1q1)", v), fmt.Sprintf("(1c11m1 + %d)", v-1)})
		}
		return wrapNum(r, v)
	}
	_ = wp
	switch fam {
	case 0, 1:
		times := fw.PickT(r, []int64{1, 2, 3, 4, 5, 6, 15, 100, 200, 201, 300, 1000})
		sides := fw.PickT(r, []int64{1, 2, 3, 6, 10, 20, 100, 1 << 31, (1 << 62) + 1})
		p := mon.CommonParams{Times: times, Sides: sides}
		src = wrapNum(r, times) + r.Pick([]string{"d", "D"}) + wrapNum(r, sides)
		if times == 1 && r.P(1, 2) {
			src = r.Pick([]string{"d", "D"}) + wrapNum(r, sides)
			if r.P(1, 3) {
				adv := r.Bool()
				if adv {
					src += r.Pick([]string{"优势", "優勢"})
					p.Times, p.Mode, p.Count = 2, 2, 1
				} else {
					src += r.Pick([]string{"劣势", "劣勢"})
					p.Times, p.Mode, p.Count = 2, 1, 1
				}
			}
		}
		if p.Mode == 0 && r.P(1, 2) {
			p.Mode = int64(1 + r.Intn(4))
			p.Count = int64(r.Range(1, int(times)+1))
			src += r.Pick(keepSpell[p.Mode])
			if p.Count == 1 && r.Bool() {
				// default count 1
			} else {
				src += wc(p.Count)
			}
		}
		// the grammar takes one of min/max per term
		switch r.Intn(5) {
		case 0:
			v := fw.PickT(r, []int64{0, 1, sides/2 + 1, sides, sides + 1})
			p.Min = &v
			src += "min" + wc(v)
		case 1:
			v := fw.PickT(r, []int64{0, 1, sides/2 + 1, sides, sides + 1})
			p.Max = &v
			src += "max" + wc(v)
		}
		check = func(total int64, text string, drawn []int64) string { return mon.CheckCommon(p, total, text, drawn) }
	case 2:
		bonus := r.Bool()
		n := int64(r.Intn(5))
		letter := "p"
		if bonus {
			letter = "b"
		}
		if r.Bool() {
			letter = strings.ToUpper(letter)
		}
		if n == 1 && r.Bool() {
			src = letter
		} else {
			src = letter + wc(n)
		}
		check = func(total int64, text string, drawn []int64) string { return mon.CheckCoC(bonus, n, total, text, drawn) }
	case 3:
		src = r.Pick([]string{"f", "F"})
		check = func(total int64, text string, drawn []int64) string { return mon.CheckFate(total, text, drawn) }
	case 4:
		pool := fw.PickT(r, []int64{1, 2, 5, 14, 15, 16, 100, 101})
		points := int64(10)
		th := int64(8)
		ge := true
		add := fw.PickT(r, []int64{0, 5, 8, 9, 10, 11})
		src = wp(pool) + r.Pick([]string{"a", "A"}) + wp(add)
		if pool == 1 && r.P(1, 3) {
			src = "a" + wp(add)
		}
		// modifiers in any order and number: the last one of each kind decides (k and q are one kind)
		for nm := r.Intn(4); nm > 0; nm-- {
			switch r.Intn(3) {
			case 0:
				points = fw.PickT(r, []int64{6, 10, 20, 100})
				src += r.Pick([]string{"m", "M"}) + wp(points)
			case 1:
				th = fw.PickT(r, []int64{1, 5, 8, 3})
				ge = true
				src += r.Pick([]string{"k", "K"}) + wp(th)
			default:
				th = fw.PickT(r, []int64{1, 5, 8, 3})
				ge = false
				src += r.Pick([]string{"q", "Q"}) + wp(th)
			}
		}
		if add != 0 && add*3 <= points*2 {
			src, add, pool, points, th, ge = "5a9", 9, 5, 10, 8, true
		}
		check = func(total int64, text string, drawn []int64) string {
			// the VM reports the success count as the value; all/rounds come from the text
			return mon.CheckWoD(add, pool, points, th, ge, total, headerAll(text), -1, text, drawn)
		}
	default:
		pool := fw.PickT(r, []int64{1, 2, 5, 14, 15, 16, 100})
		points := int64(10)
		add := fw.PickT(r, []int64{5, 8, 9, 10, 11, 12, 13, 15, 19, 20})
		src = wp(pool) + r.Pick([]string{"c", "C"}) + wp(add)
		if r.Bool() {
			points = fw.PickT(r, []int64{6, 10, 12, 20})
			src += r.Pick([]string{"m", "M"}) + wp(points)
		}
		if add*3 <= points*2 {
			src, add, pool, points = "4c8", 8, 4, 10
		}
		check = func(total int64, text string, drawn []int64) string {
			return mon.CheckDC(add, pool, points, total, headerAll(text), -1, text, drawn)
		}
	}
	desc := fmt.Sprintf("seed=%d src=%q", seed, src)
	w.Begin(idx, desc)
	tap := newRollTap()
	tap.Cap = 3000000
	hook.Set(&tap.Monitor)
	vm := cfg.NewVM()
	var err error
	pv, st := fw.Guard(func() { err = vm.Run(src) })
	hook.Set(nil)
	w.Eval(1)
	w.Count("vm_terms", 1)
	if pv != nil {
		if _, ok := pv.(hook.WorkCap); ok {
			w.Inconclusive("VM roll exceeded 3M dice: " + desc)
			return
		}
		w.Violate(idx, "panic", fw.PanicKey(pv, st), desc, fmt.Sprint(pv), nil)
		return
	}
	if err != nil {
		w.Violate(idx, "dice-rule", "dice|vm|legal-term-rejected", desc, "a legal dice term was rejected: "+firstLine(err.Error()), nil)
		return
	}
	if vm.RestInput != "" {
		w.Violate(idx, "dice-rule", "dice|vm|legal-term-not-consumed", desc, fmt.Sprintf("RestInput=%q", vm.RestInput), nil)
		return
	}
	// the term's own span is the last one (sorted by begin, the outer term starts first; pick the
	// span that covers the whole text)
	var span *ds.BufferSpan
	for i := range vm.DetailSpans {
		s := &vm.DetailSpans[i]
		if int(s.Begin) == 0 && strings.HasPrefix(s.Tag, "dice") {
			if span == nil || s.End > span.End {
				span = s
			}
		}
	}
	if span == nil {
		w.Violate(idx, "dice-rule", "dice|vm|no-span", desc, "no dice detail span recorded for the term", nil)
		return
	}
	total, ok := vm.Ret.ReadInt()
	if !ok {
		w.Violate(idx, "dice-rule", "dice|vm|non-int", desc, "dice term returned "+vm.Ret.ToRepr(), nil)
		return
	}
	if span.Ret == nil || Canon(span.Ret) != Canon(vm.Ret) {
		w.Violate(idx, "dice-rule", "dice|vm|span-ret", desc, fmt.Sprintf("span value %s differs from result %s", Canon(span.Ret), Canon(vm.Ret)), nil)
	}
	drawn := tap.drawn
	if nested {
		drawn = nil // the tap also saw the dice of the parameter terms
		w.Count("vm_terms_with_dice_parameters", 1)
	}
	if bad := check(int64(total), span.Text, drawn); bad != "" {
		w.Violate(idx, "dice-rule", "dice|vm|"+span.Tag+"|"+classOf(bad), desc, bad+" ; detail text "+span.Text, nil)
	}
	w.Count("dice_drawn", int64(len(tap.drawn)))
	w.SetAdd("tags", span.Tag)
	w.Note(fw.Hash64(desc))
	if idx%9000 == 5 {
		w.Sample(map[string]any{"kind": "vm", "src": src, "seed": seed, "ret": vm.Ret.ToString(), "detail": trunc(span.Text, 80), "drawn": len(tap.drawn)})
	}
}

// c04DefaultSides: dice without explicit sides take them from Config.DefaultDiceSideExpr as it is
// configured at the time of the roll, also when the host changes it between evaluations.
func c04DefaultSides(w *fw.W, idx int, r *fw.Rand) {
	cfg := AllDice()
	cfg.Seed = r.U64() | 1
	vm := cfg.NewVM()
	n := r.Range(2, 5)
	var hist []string
	for k := 0; k < n; k++ {
		sides := fw.PickT(r, []int64{0, 4, 6, 20, 100, 1000})
		expr := ""
		want := int64(100)
		if sides != 0 {
			want = sides
			expr = r.Pick([]string{fmt.Sprint(sides), fmt.Sprintf("%d + 0", sides), fmt.Sprintf("(%d)", sides)})
		}
		vm.Config.DefaultDiceSideExpr = expr
		times := int64(r.Range(1, 4))
		src := r.Pick([]string{"d", fmt.Sprintf("%dd", times)})
		if src == "d" {
			times = 1
		}
		hist = append(hist, fmt.Sprintf("DefaultDiceSideExpr=%q %s", expr, src))
		desc := fmt.Sprintf("seed=%d history=%q", cfg.Seed, hist)
		w.Begin(idx, desc)
		tap := newRollTap()
		var sidesSeen []int64
		tap.OnRoll = func(s *rand.PCGSource, sd ds.IntType, mode int, result ds.IntType, family string) {
			tap.drawn = append(tap.drawn, int64(result))
			sidesSeen = append(sidesSeen, int64(sd))
		}
		hook.Set(&tap.Monitor)
		var err error
		pv, st := fw.Guard(func() { err = vm.Run(src) })
		hook.Set(nil)
		w.Eval(1)
		if pv != nil {
			w.Violate(idx, "panic", fw.PanicKey(pv, st), desc, fmt.Sprint(pv), nil)
			return
		}
		if err != nil {
			w.Violate(idx, "dice-rule", "dice|vm|default-sides|rejected", desc, firstLine(err.Error()), nil)
			return
		}
		for _, sd := range sidesSeen {
			if sd != want {
				w.Violate(idx, "dice-rule", "dice|vm|default-sides|stale", desc, fmt.Sprintf("a die without explicit sides was rolled with %d sides, the configured default is %d", sd, want), nil)
				return
			}
		}
		if int64(len(sidesSeen)) != times {
			w.Violate(idx, "dice-rule", "dice|vm|default-sides|count", desc, fmt.Sprintf("%d dice drawn for %s", len(sidesSeen), src), nil)
		}
		total, _ := vm.Ret.ReadInt()
		var sum int64
		for _, d := range tap.drawn {
			sum += d
			if d < 1 || d > want {
				w.Violate(idx, "dice-rule", "dice|vm|default-sides|range", desc, fmt.Sprintf("die %d outside 1..%d", d, want), nil)
			}
		}
		if int64(total) != sum {
			w.Violate(idx, "dice-rule", "dice|vm|default-sides|total", desc, fmt.Sprintf("total %d, dice sum %d", total, sum), nil)
		}
	}
	w.Count("default_sides_sequences", 1)
	w.Note(fw.Hash64(fmt.Sprint(hist), fmt.Sprint(cfg.Seed)))
}

// c04CommonTerm builds one XdY term with modifiers and its rule parameters.
func c04CommonTerm(r *fw.Rand) (string, mon.CommonParams) {
	times := fw.PickT(r, []int64{1, 2, 3, 4, 5, 6})
	sides := fw.PickT(r, []int64{2, 3, 6, 10, 20, 100})
	p := mon.CommonParams{Times: times, Sides: sides}
	src := fmt.Sprint(times) + "d" + fmt.Sprint(sides)
	if r.P(1, 2) {
		p.Mode = int64(1 + r.Intn(4))
		p.Count = int64(r.Range(1, int(times)))
		src += r.Pick(keepSpell[p.Mode]) + fmt.Sprint(p.Count)
	}
	switch r.Intn(4) {
	case 0:
		v := fw.PickT(r, []int64{1, 2, sides/2 + 1, sides})
		p.Min = &v
		src += "min" + fmt.Sprint(v)
	case 1:
		v := fw.PickT(r, []int64{1, 2, sides/2 + 1, sides})
		p.Max = &v
		src += "max" + fmt.Sprint(v)
	}
	return src, p
}

// c04VMMulti: several dice terms in one evaluation; every term must be judged by its own
// parameters only (state of an earlier term must not leak into a later one).
func c04VMMulti(w *fw.W, idx int, r *fw.Rand) {
	k := r.Range(2, 4)
	var srcs []string
	var ps []mon.CommonParams
	for i := 0; i < k; i++ {
		s, p := c04CommonTerm(r)
		srcs = append(srcs, s)
		ps = append(ps, p)
	}
	sum := r.Bool()
	src := "[" + strings.Join(srcs, ", ") + "]"
	if sum {
		src = strings.Join(srcs, r.Pick([]string{"+", " + "}))
	}
	cfg := AllDice()
	cfg.Seed = r.U64() | 1
	switch r.Intn(4) {
	case 0:
		cfg.Min = true
	case 1:
		cfg.Max = true
	}
	desc := fmt.Sprintf("cfg=%s src=%q", cfg, src)
	w.Begin(idx, desc)
	tap := newRollTap()
	hook.Set(&tap.Monitor)
	vm := cfg.NewVM()
	var err error
	pv, st := fw.Guard(func() { err = vm.Run(src) })
	hook.Set(nil)
	w.Eval(1)
	w.Count("vm_multi_term_programs", 1)
	if pv != nil {
		w.Violate(idx, "panic", fw.PanicKey(pv, st), desc, fmt.Sprint(pv), nil)
		return
	}
	if err != nil || vm.RestInput != "" {
		w.Violate(idx, "dice-rule", "dice|vm|legal-term-rejected", desc, fmt.Sprintf("err=%v rest=%q", err, vm.RestInput), nil)
		return
	}
	var spans []ds.BufferSpan
	for _, s := range vm.DetailSpans {
		if s.Tag == "dice" {
			spans = append(spans, s)
		}
	}
	if len(spans) != k {
		w.Violate(idx, "dice-rule", "dice|vm|multi|span-count", desc, fmt.Sprintf("%d dice spans for %d terms", len(spans), k), nil)
		return
	}
	off := 0
	var total int64
	for i, p := range ps {
		n := int(p.Times)
		if off+n > len(tap.drawn) {
			w.Violate(idx, "dice-rule", "dice|vm|multi|dice-count", desc, fmt.Sprintf("term %d needs %d dice, only %d drawn in total", i, n, len(tap.drawn)), nil)
			return
		}
		drawn := tap.drawn[off : off+n]
		off += n
		sv, _ := spans[i].Ret.ReadInt()
		total += int64(sv)
		// in min/max mode the tap reports the forced faces; the rule check is the same
		if bad := mon.CheckCommon(p, int64(sv), spans[i].Text, drawn); bad != "" {
			w.Violate(idx, "dice-rule", "dice|vm|multi|"+classOf(bad), desc, fmt.Sprintf("term %d (%s): %s ; detail %q", i, srcs[i], bad, spans[i].Text), nil)
		}
	}
	if off != len(tap.drawn) {
		w.Violate(idx, "dice-rule", "dice|vm|multi|dice-count", desc, fmt.Sprintf("%d dice drawn, the terms account for %d", len(tap.drawn), off), nil)
	}
	if sum {
		if got, ok := vm.Ret.ReadInt(); !ok || int64(got) != total {
			w.Violate(idx, "dice-rule", "dice|vm|multi|sum", desc, fmt.Sprintf("result %s but the terms' values add up to %d", vm.Ret.ToRepr(), total), nil)
		}
	}
	w.Count("dice_drawn", int64(len(tap.drawn)))
	w.Note(fw.Hash64(desc))
}

// headerAll extracts the total dice count N from "成功S/N ..." or "出目V/N ...".
func headerAll(text string) int64 {
	i := strings.Index(text, "/")
	if i < 0 {
		return -1
	}
	var n int64
	fmt.Sscanf(text[i+1:], "%d", &n)
	return n
}

var c04IllegalTemplates = []string{
	"%sd6", "2d%s", "2d6kh%s", "2d6kl%s", "2d6dh%s", "2d6dl%s", "2d6k%s", "2d6q%s",
	"b%s", "p%s", "%sa5", "2a%s", "2a5m%s", "2a5k%s", "2a5q%s", "%sc5", "2c%s", "2c5m%s", "2d6min%s", "2d6max%s", "d%s", "%sd",
}

// illegal operand per template slot: values that the rules exclude
func c04IllegalOperand(r *fw.Rand, tmpl string) (string, bool) {
	nonInt := []string{"(1.5)", "('x')", "(null)", "([1])", "({})", "(toStr)"}
	switch tmpl {
	case "%sd6", "2d%s", "d%s", "%sd":
		return r.Pick(append([]string{"0", "(0-1)", "(0-5)"}, nonInt...)), true
	case "2d6kh%s", "2d6kl%s", "2d6dh%s", "2d6dl%s", "2d6k%s", "2d6q%s":
		return r.Pick(append([]string{"0", "(0-1)"}, nonInt...)), true
	case "b%s", "p%s":
		return r.Pick(append([]string{"(0-1)", "(0-3)"}, nonInt...)), true
	case "%sa5", "%sc5":
		return r.Pick(append([]string{"0", "(0-1)", "20001", "(30000)"}, nonInt...)), true
	case "2a%s":
		return r.Pick(append([]string{"1", "(0-1)", "(0-5)"}, nonInt...)), true
	case "2c%s":
		return r.Pick(append([]string{"1", "0", "(0-1)"}, nonInt...)), true
	case "2a5m%s", "2c5m%s":
		return r.Pick(append([]string{"0", "(0-1)"}, nonInt...)), true
	case "2a5k%s", "2a5q%s":
		return r.Pick(append([]string{"0", "(0-1)"}, nonInt...)), true
	case "2d6min%s", "2d6max%s":
		return r.Pick(nonInt), true
	}
	return "", false
}

func c04Illegal(w *fw.W, idx int, r *fw.Rand) {
	tmpl := r.Pick(c04IllegalTemplates)
	op, _ := c04IllegalOperand(r, tmpl)
	src := strings.Replace(tmpl, "%s", op, 1)
	if r.P(1, 12) {
		src = r.Pick([]string{"d9223372036854775807", "2d9223372036854775807", "1a2m9223372036854775807k3", "2c5m9223372036854775807"})
		tmpl = "unsupported-size"
	}
	cfg := AllDice()
	cfg.Seed = r.U64() | 1
	cfg.OpLimit = 30000
	desc := fmt.Sprintf("illegal src=%q", src)
	w.Begin(idx, desc)
	vm := cfg.NewVM()
	tap := newRollTap()
	tap.Cap = 2000000
	hook.Set(&tap.Monitor)
	var err error
	pv, st := fw.Guard(func() { err = vm.Run(src) })
	hook.Set(nil)
	w.Eval(1)
	w.Count("illegal_tuples", 1)
	if pv != nil {
		if _, ok := pv.(hook.WorkCap); ok {
			w.Violate(idx, "dice-rule", "dice|illegal|runaway|"+tmpl, desc, "illegal parameters rolled more than 2M dice", nil)
			return
		}
		w.Violate(idx, "panic", fw.PanicKey(pv, st), desc, fmt.Sprint(pv), nil)
		return
	}
	if err == nil && vm.RestInput == "" {
		w.Violate(idx, "dice-rule", "dice|illegal-accepted|"+tmpl, desc, fmt.Sprintf("illegal parameters produced %s (detail %q)", vm.Ret.ToRepr(), vm.GetDetailText()), nil)
	} else {
		w.Count("illegal_rejected", 1)
	}
	w.Note(fw.Hash64(desc))
	if idx%9000 == 8 {
		w.Sample(map[string]any{"kind": "illegal", "src": src, "error": firstLine(errText(err))})
	}
}

func init() {
	fw.Register(&fw.Prop{
		ID:      "C04",
		AsLimit: true,
		NCases:  c04N,
		Run:     c04Case,
		Floors: func(tier string) map[string]int64 {
			return map[string]int64{"direct_common": 3000, "direct_coc": 3000, "direct_wod": 3000, "direct_dc": 3000, "direct_fate": 3000, "vm_terms": 20000, "illegal_rejected": 5000, "dice_drawn": 200000}
		},
		Rule:        "40% direct Roll* calls over the parameter grid (times, sides incl. 2^31 and 2^62+1, all keep/drop modes × counts −1..times+1, min/max incl. min>max, pools to 2000, add-lines, thresholds) × seeds; 40% the same tuples through VM syntax in every spelling; 20% illegal tuples that must be rejected. The roll tap supplies every die drawn; parsers recover the displayed dice; rules from GUIDE.md recompute totals; conservation (dice drawn = dice shown = rule) even when details are suppressed. non-trivial = at least one die drawn or an illegal tuple; distinct = hash(call)",
		Assumptions: []string{"detail text formats as produced by roll_func.go", "Double Cross value = 10 × critical rounds + highest die of the last round (GUIDE.md)"},
	})
}
