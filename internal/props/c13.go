package props

import (
	"fmt"
	"strings"
	"unicode/utf8"

	ds "github.com/sealdice/dicescript"

	"verif/internal/fw"
)

// C13 — string literals and templates reproduce text exactly.

var c13Alphabet = []string{"'", "\"", "`", "\x1e", "\\", "{", "}", "%", "\r", "\n", "\t", "\f", " ", "a", "n", "r", "t", "f", "0", "é", "中", "🎲", "é", "\x00", "‍", "{%", "%}", "\\n", "\\\\", "x", "1", "."}

// c13Rune draws a code point from all of Unicode ("any Unicode text"), with extra weight on
// code points whose low byte or low 7 bits coincide with a character that is special in a literal
// (quote, backslash, brace, percent, CR/LF, 0x1E) — the ones a byte-wise scanner would confuse.
func c13Rune(r *fw.Rand) rune {
	for {
		var c rune
		switch r.Intn(6) {
		case 0:
			c = rune(0x4e00 + r.Intn(0x9fff-0x4e00))
		case 1:
			c = rune(0x80 + r.Intn(0x2000))
		case 2:
			c = rune(0x80 + r.Intn(0x10ffff-0x80))
		case 3:
			c = rune(0x10000 + r.Intn(0x100000))
		default:
			low := fw.PickT(r, []rune{0x27, 0x22, 0x60, 0x1e, 0x5c, 0x7b, 0x7d, 0x25, 0x0a, 0x0d, 0x00, 0x20})
			switch r.Intn(3) {
			case 0:
				c = rune(1+r.Intn(0xff))<<8 | low
			case 1:
				c = rune(1+r.Intn(0x10))<<16 | rune(r.Intn(0x100))<<8 | low
			default:
				c = rune(1+r.Intn(0x1ff))<<7 | (low & 0x7f)
			}
		}
		if c >= 0xd800 && c <= 0xdfff || c > 0x10ffff || !utf8.ValidRune(c) {
			continue
		}
		return c
	}
}

func c13Text(r *fw.Rand) string {
	n := r.Intn(30)
	wide := r.Intn(3) // 0: classic alphabet only; 1: some arbitrary code points; 2: mostly arbitrary
	var sb strings.Builder
	for i := 0; i < n; i++ {
		if wide == 1 && r.P(1, 4) || wide == 2 && r.P(3, 4) {
			sb.WriteRune(c13Rune(r))
		} else {
			sb.WriteString(r.Pick(c13Alphabet))
		}
	}
	return sb.String()
}

// variables every template case starts with: containers that are reachable under several names
const c13Prelude = "sa = [1, 2]; sd = {'k': 1}; sb = sa; sn = [sa, 0]; sm = {'in': sd}; se = []; mq = [0]; md = {'k': 0}; func pf(n) { if n { n = n + 1 } }; func pw(n) { while n < 3 { n = n + 1 } }"

// model of the two containers that holes modify (mq, md.k): holes are generated in evaluation
// order, so the model at generation time is the state the hole sees at run time. A hole that
// shows a container contributes its string form at that moment, whatever later holes do to it.
var c13MQ = []int{0}
var c13MD = 0

func c13MQRepr() string {
	parts := make([]string, len(c13MQ))
	for i, v := range c13MQ {
		parts[i] = fmt.Sprint(v)
	}
	return "[" + strings.Join(parts, ", ") + "]"
}

// c13TrailingRawOK: the text being encoded is followed by the closing delimiter (not by a hole).
var c13TrailingRawOK = true

// c13Encode writes text as a literal with delimiter q using the documented escapes.
// ok=false when the text cannot be written with that delimiter (no escape for ` and 0x1E).
func c13Encode(r *fw.Rand, text string, q rune) (string, bool) {
	var sb strings.Builder
	sb.WriteRune(q)
	rs := []rune(text)
	template := q == '`' || q == 0x1e
	for i, c := range rs {
		switch {
		case c == '\\':
			// a backslash before a character that is not an escape letter may stay raw
			// ("unknown escape keeps the backslash"); otherwise it is written as \\
			raw := false
			if i+1 < len(rs) {
				nx := rs[i+1]
				if nx > 0x20 && !strings.ContainsRune("nrft\\'\"{}", nx) && nx != q && r.P(1, 3) {
					raw = true
				}
			} else if template && c13TrailingRawOK && r.Bool() {
				// last character of a template text: the delimiters of the two template styles are
				// not escape characters, so the backslash stays a backslash and the template ends
				raw = true
			}
			if raw {
				sb.WriteString(`\`)
			} else {
				sb.WriteString(`\\`)
			}
		case c == q:
			if template {
				return "", false
			}
			sb.WriteRune('\\')
			sb.WriteRune(c)
		case c == '{' && template:
			sb.WriteString(`\{`)
		case c == '\'' || c == '"' || c == '{' || c == '}':
			if r.P(1, 3) {
				sb.WriteRune('\\')
			}
			sb.WriteRune(c)
		case c == '\n' && r.Bool():
			sb.WriteString(`\n`)
		case c == '\r' && r.Bool():
			sb.WriteString(`\r`)
		case c == '\t' && r.Bool():
			sb.WriteString(`\t`)
		case c == '\f' && r.Bool():
			sb.WriteString(`\f`)
		default:
			sb.WriteRune(c)
		}
	}
	sb.WriteRune(q)
	return sb.String(), true
}

type c13Hole struct {
	code string // code placed inside { } or {% %}
	want string // string form of the hole
	set  string // variable assigned inside (name=canon) or ""
}

func c13HoleGen(r *fw.Rand, depth int) c13Hole {
	switch k := r.Intn(29); {
	case k == 24:
		return fw.PickT(r, []c13Hole{{"mq", c13MQRepr(), ""}, {"[mq, 1]", "[" + c13MQRepr() + ", 1]", ""}, {"md", fmt.Sprintf("{'k': %d}", c13MD), ""}, {"mq[0]", fmt.Sprint(c13MQ[0]), ""}, {"[md]", fmt.Sprintf("[{'k': %d}]", c13MD), ""}})
	case k == 25:
		v := r.Intn(50)
		c13MQ = append(c13MQ, v)
		return c13Hole{fmt.Sprintf("mq.push(%d); 'p'", v), "p", ""}
	case k == 26:
		v := r.Intn(50)
		c13MQ[0] = v
		return c13Hole{fmt.Sprintf("mq[0] = %d", v), fmt.Sprint(v), ""}
	case k == 27:
		v := r.Intn(50)
		c13MD = v
		return c13Hole{fmt.Sprintf("md.k = %d; md.k", v), fmt.Sprint(v), ""}
	case k == 28:
		if r.Bool() {
			// functions defined or called inside a hole return what they return anywhere else: a body
			// that ends in a block gives null, not the empty text a block contributes to a template
			return fw.PickT(r, []c13Hole{{"func hf(n) { if n { n = n + 1 } }; hf(1)", "null", ""}, {"func hg(n) { while n < 3 { n = n + 1 } }; hg(0)", "null", ""}, {"pf(1)", "null", ""}, {"pw(0)", "null", ""},
				{"func hv(n) { if n { n = n + 1 }; n }; hv(1)", "2", ""}, {"[pf(1), pw(5)]", "[null, null]", ""}, {"pf(0) ?? 'dflt'", "dflt", ""}})
		}
		return fw.PickT(r, []c13Hole{{"mq", c13MQRepr(), ""}, {"md", fmt.Sprintf("{'k': %d}", c13MD), ""}})
	case k == 19:
		return c13Hole{"sa", "[1, 2]", ""}
	case k == 20:
		return fw.PickT(r, []c13Hole{{"sb", "[1, 2]", ""}, {"sa[0]", "1", ""}, {"se", "[]", ""}, {"sa + se", "[1, 2]", ""}})
	case k == 21:
		return c13Hole{"sd", "{'k': 1}", ""}
	case k == 22:
		return fw.PickT(r, []c13Hole{{"sn", "[[1, 2], 0]", ""}, {"sm", "{'in': {'k': 1}}", ""}, {"[sa, 0]", "[[1, 2], 0]", ""}, {"sm.in", "{'k': 1}", ""}, {"sn[0]", "[1, 2]", ""}})
	case k == 23:
		return c13Hole{"sv", "\x00SV", ""}
	case k == 0:
		return c13Hole{"1+2", "3", ""}
	case k == 1:
		return c13Hole{"'x'", "x", ""}
	case k == 2:
		v := r.Intn(100)
		n := r.Pick([]string{"ha", "hb", "hc"})
		return c13Hole{fmt.Sprintf("%s = %d", n, v), fmt.Sprint(v), fmt.Sprintf("%s=i%d", n, v)}
	case k == 3:
		return c13Hole{"[1,2]", "[1, 2]", ""}
	case k == 4:
		return c13Hole{"null", "null", ""}
	case k == 5:
		return c13Hole{"2.50", "2.5", ""}
	case k == 6:
		return c13Hole{"if 1 { 9 }", "", ""}
	case k == 7:
		return c13Hole{"hx = 1; hx + 1", "2", "hx=i1"}
	case k == 8:
		return c13Hole{"3d1", "3", ""}
	case k == 9:
		return c13Hole{"'q' + 'r'", "qr", ""}
	case k == 10:
		return c13Hole{"3 > 2 ? 'y' : 'n'", "y", ""}
	case k == 11:
		return c13Hole{"hw = 0; while hw < 3 { hw = hw + 1 }", "", "hw=i3"}
	case k == 12:
		return c13Hole{"{'k': 1}.k", "1", ""}
	case k == 13:
		return c13Hole{"\"d\\\"q\"", "d\"q", ""}
	case k == 14:
		return c13Hole{"hi = 0; while hi < 5 { hi = hi + 1; if hi == 3 { break } }; hi", "3", "hi=i3"}
	case k == 15:
		return c13Hole{"hj = 0; hn = 0; while hj < 6 { hj = hj + 1; if hj % 2 { continue }; hn = hn + 1 }; hn", "3", "hn=i3"}
	default:
		if depth > 0 {
			in := c13Template(r, depth-1, 2)
			return c13Hole{in.src, in.want, in.sets}
		}
		return c13Hole{"7", "7", ""}
	}
}

type c13Tmpl struct {
	src  string
	want string
	sets string // last assignment wins per variable; encoded "a=..;b=.."
}

func c13Template(r *fw.Rand, depth int, maxHoles int) c13Tmpl {
	q := '`'
	if depth == 0 && r.P(1, 4) {
		q = 0x1e
	}
	var sb, want strings.Builder
	sb.WriteRune(q)
	var sets []string
	n := r.Intn(maxHoles + 1)
	for i := 0; i <= n; i++ {
		// literal segment
		seg := ""
		for k := r.Intn(4); k > 0; k-- {
			c := r.Pick(c13Alphabet)
			if r.P(1, 5) {
				c = string(c13Rune(r))
			}
			if strings.ContainsRune(c, '`') || strings.ContainsRune(c, 0x1e) {
				continue
			}
			seg += c
		}
		c13TrailingRawOK = i == n // a segment in front of a hole is followed by '{': there the backslash would escape it
		enc, _ := c13Encode(r, seg, q)
		c13TrailingRawOK = true
		sb.WriteString(strings.TrimSuffix(strings.TrimPrefix(enc, string(q)), string(q)))
		want.WriteString(seg)
		if i == n {
			break
		}
		h := c13HoleGen(r, depth)
		stmtOnly := strings.HasPrefix(h.code, "if ") || strings.Contains(h.code, "while ")
		if r.Bool() || stmtOnly {
			sb.WriteString("{%" + r.Pick([]string{"", " "}) + h.code + r.Pick([]string{"", " "}) + "%}")
		} else {
			sb.WriteString("{" + r.Pick([]string{"", " "}) + h.code + r.Pick([]string{"", " "}) + "}")
		}
		want.WriteString(h.want)
		if h.set != "" {
			sets = append(sets, h.set)
		}
	}
	sb.WriteRune(q)
	return c13Tmpl{sb.String(), want.String(), strings.Join(sets, ";")}
}

func c13N(tier string) int {
	if tier == "thorough" {
		return 2000000
	}
	return 120000
}

func c13Case(w *fw.W, idx int, r *fw.Rand) {
	cfg := Cfg{Seed: 3, OpLimit: 30000}
	switch idx % 10 {
	case 0, 1, 2, 3, 4: // literal round trip
		text := c13Text(r)
		q := fw.PickT(r, []rune{'\'', '"', '`', 0x1e})
		lit, ok := c13Encode(r, text, q)
		if !ok {
			q = fw.PickT(r, []rune{'\'', '"'})
			lit, _ = c13Encode(r, text, q)
		}
		wrap := r.Intn(3)
		src := lit
		if wrap == 1 {
			src = "x = " + lit + "; x"
		} else if wrap == 2 {
			src = "[" + lit + "][0]"
		}
		desc := fmt.Sprintf("delimiter=%q text=%q literal=%q", string(q), text, src)
		w.Begin(idx, desc)
		vm := cfg.NewVM()
		var err error
		pv, st := fw.Guard(func() { err = vm.Run(src) })
		w.Eval(1)
		w.Count("literals", 1)
		switch {
		case pv != nil:
			w.Violate(idx, "panic", fw.PanicKey(pv, st), desc, fmt.Sprint(pv), nil)
		case err != nil:
			w.Violate(idx, "string", "string|literal-rejected|"+fmt.Sprintf("%q", string(q)), desc, firstLine(err.Error()), nil)
		case vm.RestInput != "":
			w.Violate(idx, "string", "string|literal-rest|"+fmt.Sprintf("%q", string(q)), desc, fmt.Sprintf("RestInput=%q", vm.RestInput), nil)
		default:
			got, ok := vm.Ret.ReadString()
			if !ok || got != text {
				w.Violate(idx, "string", "string|literal-value|"+fmt.Sprintf("%q", string(q)), desc, fmt.Sprintf("evaluates to %s, want %q", vm.Ret.ToRepr(), text), nil)
			} else if r.P(1, 3) {
				// the text a run returned stays that text when the same VM evaluates something else
				kept := vm.Ret
				other := "'other " + fmt.Sprint(idx) + "' + 'text'"
				fw.Guard(func() { _ = vm.Run(other); _ = vm.Run("[1, 2, 3]") })
				if again, ok2 := kept.ReadString(); !ok2 || again != text {
					w.Violate(idx, "string", "string|kept-result-changed", desc, fmt.Sprintf("the result kept from the run reads %s after two later runs on the same VM, want %q", kept.ToRepr(), text), nil)
				}
			}
		}
		if utf8.RuneCountInString(text) > 0 {
			w.Note(fw.Hash64(src))
		}
		if idx%12000 == 0 {
			w.Sample(map[string]any{"class": "literal", "delimiter": string(q), "text": text, "source": src})
		}
	case 5, 6, 7, 8: // templates
		c13MQ, c13MD = []int{0}, 0
		t := c13Template(r, r.Intn(3), 6)
		sv := c13Text(r)
		t.want = strings.ReplaceAll(t.want, "\x00SV", sv)
		wrap := r.Intn(3)
		src := t.src
		wantRet := "s" + fmt.Sprintf("%q", t.want)
		switch wrap {
		case 1:
			src = "['L', " + t.src + ", 'R']"
			wantRet = fmt.Sprintf("[s\"L\",s%q,s\"R\"]", t.want)
		case 2:
			src = "'L' + " + t.src + " + 'R'"
			wantRet = "s" + fmt.Sprintf("%q", "L"+t.want+"R")
		}
		desc := fmt.Sprintf("template=%q (after %q, sv=%q)", src, c13Prelude, sv)
		w.Begin(idx, desc)
		vm := cfg.NewVM()
		var err error
		if e0 := vm.Run(c13Prelude); e0 != nil {
			w.Violate(idx, "string", "string|prelude-rejected", desc, firstLine(e0.Error()), nil)
			return
		}
		vm.Attrs.Store("sv", ds.NewStrVal(sv))
		pv, st := fw.Guard(func() { err = vm.Run(src) })
		w.Eval(1)
		w.Count("templates", 1)
		switch {
		case pv != nil:
			w.Violate(idx, "panic", fw.PanicKey(pv, st), desc, fmt.Sprint(pv), nil)
		case err != nil:
			w.Violate(idx, "string", "string|template-rejected", desc, firstLine(err.Error()), nil)
		case vm.RestInput != "":
			w.Violate(idx, "string", "string|template-rest", desc, fmt.Sprintf("RestInput=%q", vm.RestInput), nil)
		default:
			if got := Canon(vm.Ret); got != wantRet {
				w.Violate(idx, "string", fmt.Sprintf("string|template-value|wrap%d", wrap), desc, fmt.Sprintf("evaluates to %s, want %s", got, wantRet), nil)
			}
			// variables assigned inside holes
			last := map[string]string{}
			for _, s := range strings.Split(t.sets, ";") {
				if kv := strings.SplitN(s, "=", 2); len(kv) == 2 {
					last[kv[0]] = kv[1]
				}
			}
			for k, v := range last {
				val, ok := vm.Attrs.Load(k)
				if !ok || Canon(val) != v {
					w.Violate(idx, "string", "string|template-assignment", desc, fmt.Sprintf("variable %s assigned in a hole is %s afterwards, want %s", k, Canon(val), v), nil)
				}
			}
		}
		w.Count("template_holes", int64(strings.Count(t.src, "{")))
		w.Note(fw.Hash64(src))
		if idx%12000 == 5 {
			w.Sample(map[string]any{"class": "template", "source": src, "want": t.want})
		}
	default: // nesting ladder around the limit
		depth := r.Range(1, 24)
		kind := r.Intn(2)
		open, close := "{`", "`}"
		if kind == 1 {
			open, close = "{% `", "` %}"
		}
		// what sits at the deepest level: a literal, a variable read, an assignment read back
		core, coreWant := "1", "1"
		switch r.Intn(4) {
		case 1:
			core, coreWant = "{who}", "W"
		case 2:
			core, coreWant = "{% n9 = 5 %}|{n9}", "5|5"
		case 3:
			core, coreWant = "{who}{'q'}{who}", "WqW"
		}
		src := "who = 'W'; `" + strings.Repeat("a"+open, depth) + core + strings.Repeat(close+"b", depth) + "`"
		want := strings.Repeat("a", depth) + coreWant + strings.Repeat("b", depth)
		if core == "1" {
			src = strings.TrimPrefix(src, "who = 'W'; ")
		}
		desc := fmt.Sprintf("nesting depth=%d kind=%d", depth, kind)
		w.Begin(idx, desc)
		vm := cfg.NewVM()
		var err error
		pv, st := fw.Guard(func() { err = vm.Run(src) })
		w.Eval(1)
		w.Count("nesting_cases", 1)
		switch {
		case pv != nil:
			w.Violate(idx, "panic", fw.PanicKey(pv, st), desc, fmt.Sprint(pv), nil)
		case err == nil:
			w.Count("nesting_accepted", 1)
			if got, _ := vm.Ret.ReadString(); got != want {
				w.Violate(idx, "string", "string|nesting-value", desc, fmt.Sprintf("depth %d accepted but evaluates to %q, want %q", depth, got, want), nil)
			}
		default:
			w.Count("nesting_rejected", 1)
			if depth <= 8 {
				w.Violate(idx, "string", "string|nesting-rejected-shallow", desc, "a template nested "+fmt.Sprint(depth)+" deep was rejected: "+firstLine(err.Error()), nil)
			}
		}
		w.Note(fw.Hash64(desc))
	}
}

func init() {
	fw.Register(&fw.Prop{
		ID:      "C13",
		AsLimit: true,
		NCases:  c13N,
		Run:     c13Case,
		Floors: func(tier string) map[string]int64 {
			return map[string]int64{"literals": 40000, "templates": 30000, "template_holes": 50000, "nesting_accepted": 3000, "nesting_rejected": 500}
		},
		Rule:        "50% literal round trips: random text (0–30 atoms from an alphabet of quotes, backslash, braces, %, CR/LF/TAB/FF, NUL, multi-byte, combining, astral, ZWJ, escape look-alikes) written in each of the 4 delimiters with the documented escapes (each escapable character randomly escaped or raw where raw is legal; unknown escapes keep the backslash), bare / assigned / inside an array: must evaluate byte-exactly to the text. 40% templates with ≤6 holes of both kinds ({…}, {% … %}) holding expressions, assignments, if/while blocks, nested templates (depth ≤2), bare / between array sentinels / between concatenated sentinels: result = concatenation of segments and hole string forms, hole assignments visible afterwards. 10% nesting ladders depth 1..24: accepted depths must give the exact text, deeper ones an error (never a panic). distinct = hash(source) Holes also modify and show two model-tracked containers (mq, md): a hole contributes the string form of its value at the moment it is evaluated, whatever later holes do; holes define/call functions whose body ends in a block (null).",
		Assumptions: []string{"there is no escape for a template's own delimiter, so texts containing ` (resp. 0x1E) are written with the other delimiters"},
	})
}

var _ = ds.NewVM
