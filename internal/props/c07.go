package props

import (
	"fmt"
	"strings"

	ds "github.com/sealdice/dicescript"

	"verif/internal/fw"
	"verif/internal/gen"
	"verif/internal/hook"
)

// C07 — budgets and capacity limits fail closed: bounded work, error, no truncation.

func c07Source(r *fw.Rand) (string, string) {
	big := func() string {
		return fmt.Sprint(fw.PickT(r, []int64{100, 1000, 29999, 30001, 100000, 1 << 31, 1 << 40, (1 << 62), 9223372036854775807}))
	}
	switch k := r.Intn(27); {
	case k < 3:
		return gen.Doubling(r), "doubling"
	case k < 5:
		return gen.Ladder(r), "ladder"
	case k == 5:
		return big() + "d" + big(), "huge-count"
	case k == 6:
		return r.Pick([]string{"b", "p"}) + "(" + big() + ")", "huge-coc"
	case k == 7:
		return fmt.Sprintf("%sa%d m%s", r.Pick([]string{"1", "5", "20000"}), 2+r.Intn(3), big()), "explode-wod-bad"
	case k == 8:
		return r.Pick([]string{"1", "5", "20000"}) + "a" + fmt.Sprint(2+r.Intn(3)) + "m" + big(), "explode-wod"
	case k == 9:
		return r.Pick([]string{"1", "5", "20000"}) + "c" + fmt.Sprint(2+r.Intn(3)) + "m" + big(), "explode-dc"
	case k == 10:
		return "func rf(n) { rf(n+1) }; rf(0)", "recursion"
	case k == 11:
		return "func rf(n) { rg(n) }; func rg(n) { rf(n) }; rf(0)", "mutual-recursion"
	case k == 12:
		return "&ra = rb + 1; &rb = ra + 1; ra", "computed-recursion"
	case k == 13:
		return "xs=[3,1,2]; xs." + r.Pick([]string{"kh", "kl", "randSize"}) + "(" + big() + ")", "native-loop"
	case k == 14:
		return "[1]*" + big(), "repeat"
	case k == 15:
		return "[1.." + big() + "]", "range"
	case k == 16:
		return "xs=[1,2,3]; xs[" + big() + ":]; xs[:" + big() + "]; xs[0:" + big() + "] = [1]", "slice-bounds"
	case k == 17:
		n := fw.PickT(r, []int{10, 200, 2000, 4000})
		return strings.TrimSuffix(strings.Repeat(gen.DiceTerm(r)+"+", n), "+"), "long-dice-sum"
	case k == 18:
		return "i = 0; while 1 { i = i + 1; " + gen.DiceTerm(r) + " }", "loop-dice"
	case k == 19:
		return "x = 'a'; while 1 { x = toStr([x, x]) }", "tostr-doubling"
	case k == 20:
		return "d + 2d", "def-side" // with a recursive DefaultDiceSideExpr
	case k == 21:
		return gen.Matrix(r), "matrix"
	case k == 22:
		return "i=0; while i < " + big() + " { i = i + 1 }; i", "counting-loop"
	case k == 23, k == 24:
		// values without compiled code (restored from JSON / built by the host), compiled lazily
		return r.Pick([]string{"lx", "lf(0)", "ghp", "gself + 1", "i=0; while i < 100000 { i = i + 1; gfresh }; i", "i=0; s=0; while i < 2000 { i = i + 1; s = s + lok(i) }; s", "lx + lf(0)", "i=0; while i < 300 { i=i+1; gok }; lx"}), "lazy-values"
	case k == 25:
		// cheap instructions that buy big texts: an array of uncharged (< 256 byte) strings printed
		// through a template, that text repeated in an array, and the array shown in every part of
		// one template. The work of printing has to stop at the budget, not after the last part.
		n := fw.PickT(r, []int{1, 3, 12, 40, 200})
		m := fw.PickT(r, []int{100, 512})
		part := r.Pick([]string{"{zb}", "{% zb %}", "{[zb]}", "x{zb}"})
		return "zs = '" + strings.Repeat("x", 250) + "'; za = [zs]*" + fmt.Sprint(m) + "; zt = `{za}`; zb = [zt]*512; zu = `" + strings.Repeat(part, n) + "`; 1", "template-of-big-arrays"
	default:
		return gen.ValidProgram(r, 3, false), "valid"
	}
}

// c07InstallLazy puts values without compiled code into the VM: decoded from JSON into the
// variables, and served (the same object, or a fresh object per lookup) by the host's global loader.
func c07InstallLazy(vm *ds.Context, r *fw.Rand) {
	dec := func(doc string) *ds.VMValue {
		v, err := ds.VMValueFromJSON([]byte(doc))
		if err != nil {
			return ds.NewNullVal()
		}
		return v
	}
	vm.Attrs.Store("lx", dec(`{"t":5,"v":{"expr":"lx + 1"}}`))
	vm.Attrs.Store("lf", dec(`{"t":8,"v":{"expr":"lf(n+1)","name":"lf","params":["n"]}}`))
	vm.Attrs.Store("lok", dec(`{"t":8,"v":{"expr":"n * 2 + d6","name":"lok","params":["n"]}}`))
	shared := map[string]*ds.VMValue{
		"ghp":   dec(`{"t":5,"v":{"expr":"gcon + 1"}}`),
		"gcon":  dec(`{"t":5,"v":{"expr":"ghp + 1"}}`),
		"gself": dec(`{"t":5,"v":{"expr":"gself * 2"}}`),
		"gok":   dec(`{"t":5,"v":{"expr":"3d6 + 1"}}`),
	}
	vm.GlobalValueLoadFunc = func(name string) *ds.VMValue {
		if name == "gfresh" {
			return ds.NewComputedVal("1 + 2 + 3 + 4 + 5 + 6 + 7 + 8 + 9 + 10 + d6")
		}
		return shared[name]
	}
}

func c07N(tier string) int {
	if tier == "thorough" {
		return 250000
	}
	return 9000
}

func c07Budget(w *fw.W, idx int, r *fw.Rand) {
	src, fam := c07Source(r)
	cfg := AllDice()
	cfg.OpLimit = []int64{50, 1000, 30000}[r.Intn(3)]
	cfg.ParseLimit = 10000000
	switch r.Intn(3) {
	case 0:
		cfg.Min = true
	case 1:
		cfg.Max = true
	}
	cfg.Seed = r.U64() | 1
	if fam == "def-side" {
		cfg.DefSide = r.Pick([]string{"d", "2d + 1", "面数 ?? d"})
	}
	L := cfg.OpLimit
	desc := fmt.Sprintf("cfg=%s src=%q", cfg, trunc(src, 300))
	w.Begin(idx, fmt.Sprintf("cfg=%s src=%q", cfg, src))
	mo := &hook.Monitor{Cap: 8*L + 10000}
	var lastCount ds.IntType
	var monoBad string
	var lastCtx *ds.Context
	var lastPC int
	mo.OnTick = func(ctx *ds.Context, pc int) {
		lastCtx, lastPC = ctx, pc
		c := ctx.NumOpCount
		if c < 0 && monoBad == "" {
			monoBad = fmt.Sprintf("operation counter is negative (%d)", c)
		}
		if c < lastCount && monoBad == "" {
			monoBad = fmt.Sprintf("operation counter went from %d back to %d (at %s)", lastCount, c, ds.VerifOpAt(ctx, pc))
		}
		lastCount = c
	}
	hook.Set(mo)
	vm := cfg.NewVM()
	if fam == "lazy-values" {
		c07InstallLazy(vm, r)
	}
	var err error
	pv, st := fw.Guard(func() { err = vm.Run(src) })
	hook.Set(nil)
	w.Eval(1)
	w.Count("budget_cases", 1)
	w.Count("family_"+fam, 1)
	W := mo.Ticks + mo.Rolls
	if pv != nil {
		if wc, ok := pv.(hook.WorkCap); ok {
			op := "?"
			if lastCtx != nil {
				op = ds.VerifOpAt(lastCtx, lastPC)
			}
			w.Violate(idx, "budget", "budget|work-exceeds-budget|"+op, desc, fmt.Sprintf("metered work %d (dispatches %d + dice %d) exceeded 8·%d+10000 and the run had to be aborted; operation counter at that point %d", wc.Work, mo.Ticks, mo.Rolls, L, lastCount), nil)
		} else {
			w.Violate(idx, "panic", fw.PanicKey(pv, st), desc, fmt.Sprint(pv), nil)
		}
		return
	}
	if monoBad != "" {
		w.Violate(idx, "budget", "budget|counter-not-monotone", desc, monoBad, nil)
	}
	if err == nil {
		w.Count("budget_completed", 1)
		if int64(vm.NumOpCount) > L {
			w.Violate(idx, "budget", "budget|over-limit-without-error", desc, fmt.Sprintf("Run returned no error although NumOpCount=%d exceeds OpCountLimit=%d", vm.NumOpCount, L), nil)
		}
		if W > 8*(int64(vm.NumOpCount)+1) {
			w.Violate(idx, "budget", "budget|counter-undercounts", desc, fmt.Sprintf("metered work %d (dispatches %d + dice %d) but the operation counter is only %d", W, mo.Ticks, mo.Rolls, vm.NumOpCount), nil)
		}
	} else {
		w.Count("budget_errors", 1)
		if strings.Contains(err.Error(), "算力上限") {
			w.Count("budget_limit_errors", 1)
		}
	}
	if W > 0 {
		w.Note(fw.Hash64(desc))
	}
	w.Count("metered_work", W)
	if idx%1200 == 0 {
		w.Sample(map[string]any{"family": fam, "cfg": cfg.String(), "src": trunc(src, 120), "work": W, "num_op_count": int64(vm.NumOpCount), "error": firstLine(errText(err))})
	}
}

// parse budget
func c07Parse(w *fw.W, idx int, r *fw.Rand) {
	var src string
	switch r.Intn(5) {
	case 0:
		src = strings.TrimSuffix(strings.Repeat("1+", fw.PickT(r, []int{5, 50, 500, 3000})), "+")
	case 1:
		src = strings.Repeat("(", fw.PickT(r, []int{3, 10, 30})) + "1" + strings.Repeat(")", 30)
	case 2:
		src = gen.ValidProgram(r, 3, true)
	case 3:
		src = gen.Ladder(r)
	default:
		c := gen.Corpus()
		src = gen.Mutate(r, c[r.Intn(len(c))])
	}
	limit := fw.PickT(r, []uint64{1, 50, 200, 1000, 20000, 1000000})
	cfg := AllDice()
	cfg.ParseLimit = limit
	cfg.OpLimit = 30000
	desc := fmt.Sprintf("ParseExprLimit=%d src=%q", limit, trunc(src, 200))
	w.Begin(idx, desc)
	vm := cfg.NewVM()
	var err error
	pv, st := fw.Guard(func() { err = vm.Parse(src) })
	w.Eval(1)
	w.Count("parse_budget_cases", 1)
	if pv != nil {
		w.Violate(idx, "panic", fw.PanicKey(pv, st), desc, fmt.Sprint(pv), nil)
		return
	}
	cnt := ds.VerifParserExprCnt(vm)
	if err == nil && cnt > limit {
		w.Violate(idx, "budget", "budget|parse-over-limit-without-error", desc, fmt.Sprintf("Parse succeeded after %d grammar expressions although the limit is %d", cnt, limit), nil)
	}
	if cnt > limit+1 {
		w.Violate(idx, "budget", "budget|parse-work-exceeds-limit", desc, fmt.Sprintf("the parser evaluated %d expressions under a limit of %d", cnt, limit), nil)
	}
	if err != nil && strings.Contains(err.Error(), "解析算力上限") {
		w.Count("parse_limit_errors", 1)
	}
	w.Note(fw.Hash64(desc))
}

// capacities: a program beyond a capacity is rejected, never executed in truncated form
func c07Capacity(w *fw.W, idx int, r *fw.Rand) {
	var src, want, fam string
	n := 0
	switch r.Intn(11) {
	case 0: // code size: n-term sum
		n = fw.PickT(r, []int{100, 2000, 4094, 4095, 4096, 4097, 4098, 5000, 8000})
		src, want, fam = strings.TrimSuffix(strings.Repeat("1+", n), "+"), fmt.Sprintf("i%d", n), "code-size-main"
	case 1: // code size inside a function body
		n = fw.PickT(r, []int{100, 120, 127, 128, 129, 2000, 4095, 4096, 4097, 5000})
		src, want, fam = "func fn1() { "+strings.TrimSuffix(strings.Repeat("1+", n), "+")+" }; fn1()", fmt.Sprintf("i%d", n), "code-size-function"
	case 2: // code size inside a computed value
		n = fw.PickT(r, []int{100, 127, 128, 129, 4095, 4096, 4097})
		src, want, fam = "&c = "+strings.TrimSuffix(strings.Repeat("1+", n), "+")+"; c", fmt.Sprintf("i%d", n), "code-size-computed"
	case 3: // operand stack: n-element literal of every kind of pushing instruction, measured
		n = fw.PickT(r, []int{10, 500, 997, 998, 999, 1000, 1001, 1500})
		el := r.Pick([]string{"1", "1", "[]", "{}", "f", "'s'", "x", "d1", "1.5", "null", "[1]", "b0", "`t`", "toStr"})
		src, want, fam = "["+strings.TrimSuffix(strings.Repeat(el+",", n), ",")+"].len()", fmt.Sprintf("i%d", n), "operand-stack"
	case 4: // nested blocks
		n = fw.PickT(r, []int{1, 10, 18, 19, 20, 21, 22, 30})
		src, want, fam = "x = 0; "+strings.Repeat("if 1 { ", n)+"x = 7"+strings.Repeat(" }", n)+"; x", "i7", "block-nesting"
	case 5: // nested templates
		n = fw.PickT(r, []int{1, 10, 18, 19, 20, 21, 22, 30})
		src, want, fam = "`"+strings.Repeat("a{`", n)+"1"+strings.Repeat("`}", n)+"`", fmt.Sprintf("s%q", strings.Repeat("a", n)+"1"), "template-nesting"
	case 6: // container length via range
		n = fw.PickT(r, []int{10, 510, 511, 512, 513, 600})
		src, want, fam = fmt.Sprintf("[1..%d].len()", n), fmt.Sprintf("i%d", n), "range-length"
	case 7: // container length via concatenation / repetition
		n = fw.PickT(r, []int{10, 255, 256, 257, 300})
		src, want, fam = fmt.Sprintf("xs = [1]*%d; (xs + xs).len()", n), fmt.Sprintf("i%d", 2*n), "concat-length"
	case 10: // slice assignment that would grow an array beyond the 512 elements every other constructor allows
		n = r.Intn(8)
		base := fw.PickT(r, []int{300, 512, 511, 400})
		hi := r.Pick([]string{"9999", "100000", "9223372036854775807", "xs.len()", "600"})
		lo := r.Pick([]string{"xs.len()", fmt.Sprint(base), fmt.Sprint(base - 1)}) // appending: the result has ≥ 2·base−1 > 512 elements
		src, want, fam = fmt.Sprintf("xs = [0]*%d; xs[%s:%s] = xs; xs[%s:%s] = xs; xs.len()", base, lo, hi, lo, hi), "REJECT", "slice-assign-growth"
	case 9: // repetition counts whose product with the length wraps around the word size
		n = r.Intn(8)
		k := fw.PickT(r, []int{3, 4, 8, 16})
		var el []string
		for i := 0; i < k; i++ {
			el = append(el, "1")
		}
		// counts c with (k*c mod 2^64) small: c = (2^64*j + small)/k for j = 1..k-1
		big := map[int][]string{
			3:  {"6148914691236517206", "6148914691236517207", "12297829382473034411"},
			4:  {"4611686018427387905", "4611686018427387904", "4611686018427387968"},
			8:  {"2305843009213693953", "2305843009213693984", "2305843009213693952"},
			16: {"1152921504606846977", "1152921504606846976", "1152921504606847000"},
		}
		src, want, fam = "xs = ["+strings.Join(el, ",")+"]; (xs * "+r.Pick(big[k])+").len()", "REJECT", "repeat-wraparound"
		if r.Bool() {
			src = "xs = [" + strings.Join(el, ",") + "]; (" + r.Pick(big[k]) + " * xs).len()"
		}
	default: // statements: many statements in sequence leave their values on the stack
		n = fw.PickT(r, []int{10, 500, 990, 999, 1000, 1001, 1200})
		src, want, fam = strings.Repeat("1;", n)+"5", "i5", "statement-count"
	}
	cfg := AllDice()
	cfg.OpLimit = 0
	cfg.Seed = 9
	desc := fmt.Sprintf("capacity %s n=%d", fam, n)
	w.Begin(idx, desc+" src="+trunc(src, 200))
	drops := 0
	mo := &hook.Monitor{}
	mo.OnDrop = func() { drops++ }
	hook.Set(mo)
	vm := cfg.NewVM()
	var err error
	pv, st := fw.Guard(func() { err = vm.Run(src) })
	hook.Set(nil)
	w.Eval(1)
	w.Count("capacity_cases", 1)
	w.Count("capacity_"+fam, 1)
	if pv != nil {
		w.Violate(idx, "panic", fw.PanicKey(pv, st), desc, fmt.Sprint(pv), nil)
		return
	}
	if err == nil {
		w.Count("capacity_accepted", 1)
		if drops > 0 {
			w.Violate(idx, "capacity", "capacity|code-dropped|"+fam, desc, fmt.Sprintf("%d instructions were discarded while compiling, yet the program ran without error and returned %s", drops, vm.Ret.ToRepr()), nil)
		}
		if want == "REJECT" {
			w.Violate(idx, "capacity", "capacity|over-long-accepted|"+fam, desc+" src="+src, fmt.Sprintf("a container far beyond the length capacity was accepted and yielded %s", trunc(Canon(vm.Ret), 100)), nil)
		} else if got := Canon(vm.Ret); got != want {
			w.Violate(idx, "capacity", "capacity|partial-value|"+fam, desc, fmt.Sprintf("returned %s, the whole program evaluates to %s", trunc(got, 100), want), nil)
		}
	} else {
		w.Count("capacity_rejected", 1)
	}
	w.Note(fw.Hash64(desc))
	if idx%1200 == 7 {
		w.Sample(map[string]any{"capacity": fam, "n": n, "accepted": err == nil, "error": firstLine(errText(err)), "dropped_instructions": drops})
	}
}

func init() {
	fw.Register(&fw.Prop{
		ID:      "C07",
		AsLimit: true,
		NCases:  c07N,
		Run: func(w *fw.W, idx int, r *fw.Rand) {
			switch idx % 6 {
			case 4:
				c07Parse(w, idx, r)
			case 5:
				c07Capacity(w, idx, r)
			default:
				c07Budget(w, idx, r)
			}
		},
		Floors: func(tier string) map[string]int64 {
			return map[string]int64{"budget_cases": 6000, "budget_limit_errors": 1500, "budget_completed": 500, "parse_budget_cases": 1500, "parse_limit_errors": 200, "capacity_accepted": 500, "capacity_rejected": 300}
		},
		HangWall: 60,
		Rule:        "4/6 budget cases: 25 adversarial families (doubling strings/arrays/templates, big arrays shown in every part of one template, huge dice counts incl. counter overflow, exploding WoD/DC with enormous sides, direct/mutual/computed recursion, recursive DefaultDiceSideExpr, native loops driven by an operand, huge repeat/range/slice bounds, 4000-term dice sums, endless loops) × OpCountLimit in {50,1000,30000} × min/max/random mode: the work meter (dispatches in all VMs + dice drawn) must stay ≤ 8·limit+10000, the counter must be monotone and non-negative at every dispatch, a run over the limit must return an error, and on success work ≤ 8·(counter+1). 1/6 parse budget: expressions evaluated ≤ limit+1 and an error once exceeded. 1/6 capacity ladders around every built-in limit (8192 instructions in main/function/computed buffers, 1000 stack slots, 20 block/template levels, 512 elements): accepted programs must return the value of the whole program and must not have had instructions dropped. distinct = hash(case)",
		Assumptions: []string{"'work' = instruction dispatches + dice drawn; allocation volume is covered through the address-space limit of C01", "capacities as declared by the code: 8192 instructions, 1000 slots, 20 levels, 512 elements"},
	})
}
