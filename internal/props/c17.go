package props

import (
	"fmt"
	"strconv"
	"strings"

	ds "github.com/sealdice/dicescript"

	"verif/internal/fw"
	"verif/internal/gen"
)

// C17 — extension points are transparent unless they act.

type c17Obs struct {
	err, ret, detail, matched, rest, vars, seed, panicV string
}

func installIdentityExtensions(vm *ds.Context, r *fw.Rand) {
	regs := []func(){
		func() {
			_ = vm.RegCustomDice(`ZZZ(\d+)QQ`, func(ctx *ds.Context, groups []string, _ any) (*ds.VMValue, string, error) {
				panic("never-matching regex handler was called")
			})
		},
		func() {
			_ = vm.RegCustomDiceParser(func(ctx *ds.Context, s *ds.CustomDiceStream) (*ds.CustomDiceParseResult, error) {
				s.Read()
				s.Read()
				s.ReadDigits()
				return nil, nil
			}, func(ctx *ds.Context, groups []string, _ any) (*ds.VMValue, string, error) {
				panic("never-matching stream handler was called")
			})
		},
		func() {
			_ = vm.RegCustomDiceParser(func(ctx *ds.Context, s *ds.CustomDiceStream) (*ds.CustomDiceParseResult, error) {
				_, _, _ = s.ReadExpr("")
				return &ds.CustomDiceParseResult{Matched: false}, nil
			}, func(ctx *ds.Context, groups []string, _ any) (*ds.VMValue, string, error) {
				panic("never-matching stream handler was called")
			})
		},
		func() {
			_ = vm.RegCustomDiceParser(func(ctx *ds.Context, s *ds.CustomDiceStream) (*ds.CustomDiceParseResult, error) {
				s.Peek()
				if c, ok := s.Read(); ok && c == 'd' {
					s.Unread()
				}
				s.ResetAttempt()
				return &ds.CustomDiceParseResult{Matched: true}, nil // matched but consumed nothing: must be ignored
			}, func(ctx *ds.Context, groups []string, _ any) (*ds.VMValue, string, error) {
				panic("zero-width stream handler was called")
			})
		},
	}
	for _, i := range r.Perm(len(regs)) {
		if r.P(3, 4) {
			regs[i]()
		}
	}
	vm.Config.HookValueLoadPre = func(ctx *ds.Context, name string) (string, *ds.VMValue) { return name, nil }
	vm.Config.HookValueStore = func(ctx *ds.Context, name string, v *ds.VMValue) (*ds.VMValue, bool) { return nil, false }
	vm.Config.HookValueLoadPost = func(ctx *ds.Context, name string, curVal *ds.VMValue, doCompute func(curVal *ds.VMValue) *ds.VMValue, detail *ds.BufferSpan) *ds.VMValue {
		return doCompute(curVal)
	}
	vm.Config.CustomDetailSpanRewriteFunc = func(ctx *ds.Context, d string, span ds.BufferSpan, isRoot bool, buf []byte, off int) string { return d }
	vm.Config.CustomDetailRewriteFunc = func(ctx *ds.Context, d string, span ds.BufferSpan, buf []byte, off int) string { return d }
}

func c17Run(cfg Cfg, src string, ext bool, r *fw.Rand) (o c17Obs) {
	vm := cfg.NewVM()
	if ext {
		installIdentityExtensions(vm, r)
	}
	var err error
	pv, _ := fw.Guard(func() { err = vm.Run(src) })
	if pv != nil {
		o.panicV = fmt.Sprint(pv)
		return
	}
	if err != nil {
		o.err = err.Error()
		o.vars = CanonVars(vm)
		return
	}
	o.ret = Canon(vm.Ret)
	o.matched, o.rest = vm.Matched, vm.RestInput
	if pv, _ := fw.Guard(func() { o.detail = vm.GetDetailText() }); pv != nil {
		o.panicV = "GetDetailText: " + fmt.Sprint(pv)
	}
	o.vars = CanonVars(vm)
	o.seed = seedOf(vm)
	return
}

func c17Twin(w *fw.W, idx int, r *fw.Rand) {
	var src, fam string
	if r.P(1, 12) {
		// names bound to null in an inner scope while an outer scope (or a builtin) has a value:
		// identity load hooks must not change which binding a read finds
		src, fam = r.Pick([]string{
			"x = 7; func f(x) { x }; f(null)", "y = 3; func g() { y = null; y }; g()", "x = 7; func f(x) { [x, x ?? 1] }; f(null)",
			"&c = (z = null) ?? 5; z = 9; c", "func h(abs) { abs }; h(null)", "k = 'outer'; func f(k) { `{k}` }; f(null) + k",
			"x = 1; func f(x) { func g() { x }; g() }; f(null)", "x = [1]; func f(x) { x ?? 'inner null' }; [f(null), f(2)]",
			"func f(v) { v = null; v }; v = 4; f(1)", "q = 5; &cq = q; func f(q) { cq }; f(null)",
		}), "null-shadow"
		goto haveSrc
	}
	switch r.Intn(7) {
	case 0, 1:
		src, fam = gen.ValidProgram(r, 3, r.Bool()), "valid"
	case 2:
		src, fam = gen.DiceProgram(r), "dice"
	case 3:
		c := gen.Corpus()
		src, fam = c[r.Intn(len(c))], "corpus"
	case 4:
		src, fam = gen.StmtNest(r, 2, false, false), "nest"
	case 5:
		src, fam = gen.ValidProgram(r, 2, false)+r.Pick(gen.Separators)+r.Pick(gen.Tails), "valid+tail"
	default:
		c := gen.Corpus()
		src, fam = gen.Mutate(r, c[r.Intn(len(c))]), "mutated-corpus"
	}
haveSrc:
	cfg := RandCfg(r)
	cfg.Seed = r.U64() | 1
	cfg.OpLimit = 20000
	cfg.ParseLimit = 0
	if cfg.DefSide == "1 +" {
		cfg.DefSide = ""
	}
	if r.P(1, 4) {
		// a host that limits parser work: the budget is set to exactly what the program needs
		// without any extension; extensions that do not act must not use it up
		probe := cfg.NewVM()
		var perr error
		fw.Guard(func() { perr = probe.Parse(src) })
		if perr == nil {
			if n := ds.VerifParserExprCnt(probe); n > 0 {
				cfg.ParseLimit = n
			}
		}
	}
	desc := fmt.Sprintf("cfg=%s src=%q", cfg, src)
	w.Begin(idx, desc)
	er := fw.NewRand(r.U64())
	a := c17Run(cfg, src, false, nil)
	b := c17Run(cfg, src, true, er)
	w.Eval(2)
	w.Count("twin_"+fam, 1)
	w.Count("twins", 1)
	if a.panicV != "" {
		// a crash without extensions is C01's business
		w.Count("plain_panics", 1)
		return
	}
	field := ""
	switch {
	case b.panicV != "":
		field = "panic"
	case a.err != b.err:
		field = "error"
	case a.ret != b.ret:
		field = "ret"
	case a.detail != b.detail:
		field = "detail"
	case a.rest != b.rest || a.matched != b.matched:
		field = "rest"
	case a.vars != b.vars:
		field = "vars"
	case a.seed != b.seed:
		field = "seed"
	}
	if field != "" {
		w.Violate(idx, "extension", "ext|twin|"+field, desc, fmt.Sprintf("plain: %+v\nwith identity extensions: %+v", a, b), nil)
	}
	if a.err == "" {
		w.Count("twins_accepted", 1)
		w.Note(fw.Hash64(desc))
	}
	if idx%4000 == 0 {
		w.Sample(map[string]any{"class": "twin", "family": fam, "cfg": cfg.String(), "src": trunc(src, 160)})
	}
}

// ----- matching syntaxes: invocation log

type c17Frag struct {
	src string
	log []string
}

func c17Operand(r *fw.Rand) (string, string) {
	n := 1 + r.Intn(9)
	switch r.Intn(4) {
	case 0, 1:
		return fmt.Sprintf("E%d", n), fmt.Sprintf("re|E%d|%d", n, n)
	case 2:
		// second alternative of a regex with a top-level alternation: K(\d+)|J(\d+)
		return fmt.Sprintf("J%d", n), fmt.Sprintf("alt|J%d|%d", n, n)
	}
	return fmt.Sprintf("X%d!", n), fmt.Sprintf("st|X%d!|%d", n, n)
}

func c17Fragment(r *fw.Rand) c17Frag {
	a, la := c17Operand(r)
	b, lb := c17Operand(r)
	rep := func(l string, n int) []string {
		var o []string
		for i := 0; i < n; i++ {
			o = append(o, l)
		}
		return o
	}
	switch r.Intn(22) {
	case 0:
		return c17Frag{a, []string{la}}
	case 1:
		return c17Frag{a + " + " + b, []string{la, lb}}
	case 2:
		return c17Frag{a + " * 2 + (" + b + ")", []string{la, lb}}
	case 3:
		n := r.Range(0, 4)
		return c17Frag{fmt.Sprintf("i=0; while i<%d { i=i+1; %s }", n, a), rep(la, n)}
	case 4:
		return c17Frag{"if 0 { " + a + " } else { " + b + " }", []string{lb}}
	case 5:
		return c17Frag{"if 1 { " + a + " } else { " + b + " }", []string{la}}
	case 6:
		return c17Frag{"1 ? " + a + " : " + b, []string{la}}
	case 7:
		return c17Frag{"0 ? " + a + " : " + b, []string{lb}}
	case 8:
		return c17Frag{"`x{" + a + "}y{% " + b + " %}`", []string{la, lb}}
	case 9:
		n := r.Range(1, 3)
		calls := strings.TrimSuffix(strings.Repeat("g() + ", n), " + ")
		return c17Frag{"func g(){ " + a + " }; " + calls, rep(la, n)}
	case 10:
		n := r.Range(1, 3)
		loads := strings.TrimSuffix(strings.Repeat("cv; ", n), "; ")
		return c17Frag{"&cv = " + a + " + 1; " + loads, rep(la, n)}
	case 11:
		return c17Frag{"[" + a + ", " + b + "].sum()", []string{la, lb}}
	case 12:
		return c17Frag{a + " || " + b, []string{la}}
	case 13:
		return c17Frag{"0 || " + b, []string{lb}}
	case 14:
		return c17Frag{"(" + a + ")", []string{la}}
	case 15:
		return c17Frag{"x = " + a + "; x", []string{la}}
	case 16:
		return c17Frag{"toStr(" + a + ")", []string{la}}
	case 17:
		return c17Frag{"{'k': " + a + "}.k", []string{la}}
	case 18:
		return c17Frag{"-" + a, []string{la}}
	case 19:
		return c17Frag{fmt.Sprintf("xE%d", 1+r.Intn(9)), nil} // part of an identifier, not an operand
	case 20:
		return c17Frag{"2d6 + " + a + " + d4", []string{la}}
	default:
		return c17Frag{"[" + a + "][0] + {'q':" + b + "}['q']", []string{la, lb}}
	}
}

// c17Overlap: a regex syntax and a stream syntax that both match at the same operand start; the
// one registered first handles every such operand ("syntaxes are tried in registration order").
func c17Overlap(w *fw.W, idx int, r *fw.Rand) {
	regexFirst := r.Bool()
	nOps := r.Range(1, 4)
	var terms []string
	sum := 0
	for i := 0; i < nOps; i++ {
		k := r.Intn(50)
		terms = append(terms, fmt.Sprintf("Q%d", k))
		sum += k
	}
	src := strings.Join(terms, r.Pick([]string{" + ", "+", " +"}))
	desc := fmt.Sprintf("overlap regexFirst=%v src=%q", regexFirst, src)
	w.Begin(idx, desc)
	cfg := AllDice()
	cfg.Seed = r.U64() | 1
	vm := cfg.NewVM()
	var log []string
	regRe := func() {
		_ = vm.RegCustomDice(`Q(\d+)`, func(ctx *ds.Context, groups []string, _ any) (*ds.VMValue, string, error) {
			log = append(log, "re")
			k, _ := strconv.Atoi(groups[1])
			return ds.NewIntVal(ds.IntType(1000 + k)), "", nil
		})
	}
	regSt := func() {
		_ = vm.RegCustomDiceParser(func(ctx *ds.Context, s *ds.CustomDiceStream) (*ds.CustomDiceParseResult, error) {
			c, ok := s.Read()
			if !ok || c != 'Q' {
				s.ResetAttempt()
				return &ds.CustomDiceParseResult{Matched: false}, nil
			}
			d, ok := s.ReadDigits()
			if !ok {
				s.ResetAttempt()
				return nil, nil
			}
			return &ds.CustomDiceParseResult{Matched: true, Groups: []string{"", d}}, nil
		}, func(ctx *ds.Context, groups []string, _ any) (*ds.VMValue, string, error) {
			log = append(log, "st")
			k, _ := strconv.Atoi(groups[1])
			return ds.NewIntVal(ds.IntType(2000 + k)), "", nil
		})
	}
	base, kind := 2000, "st"
	if regexFirst {
		regRe()
		regSt()
		base, kind = 1000, "re"
	} else {
		regSt()
		regRe()
	}
	var err error
	pv, st := fw.Guard(func() { err = vm.Run(src) })
	w.Eval(1)
	w.Count("overlap_programs", 1)
	if pv != nil {
		w.Violate(idx, "panic", fw.PanicKey(pv, st), desc, fmt.Sprint(pv), nil)
		return
	}
	if err != nil {
		w.Violate(idx, "extension", "ext|overlap|rejected", desc, firstLine(err.Error()), nil)
		return
	}
	want := make([]string, nOps)
	for i := range want {
		want[i] = kind
	}
	got, _ := vm.Ret.ReadInt()
	if fmt.Sprint(log) != fmt.Sprint(want) || int(got) != base*nOps+sum {
		w.Violate(idx, "extension", "ext|overlap|registration-order", desc, fmt.Sprintf("handlers run %v (want %v), result %d (want %d): the syntax registered first must handle the operand", log, want, got, base*nOps+sum), nil)
	}
	w.Note(fw.Hash64(desc))
}

// c17ReadExpr: the documented stream die "R<expr>" whose parser reads its operand with ReadExpr.
// The handler must receive exactly the operand's text (no blank or line break that belongs to
// what follows), once.
func c17ReadExpr(w *fw.W, idx int, r *fw.Rand) {
	e := r.Pick([]string{"(1+2)", "x", "[1,2][0]", "'s'", "3", "(x)", "f(1)", "1+(2)", "`t`", "{'k':1}.k", "2d1", "(1)+x"})
	tail := r.Pick([]string{" 理由", "\t# note", "  ", "", " reason text", " 。", "  ,"})
	pre := r.Pick([]string{"", "", "1 + ", "x = 2; ", "[", "func f(v) { v }; "})
	post := map[string]string{"[": "]"}[pre]
	if post != "" {
		tail = ""
	}
	src := pre + "R" + e + post + tail
	desc := fmt.Sprintf("readexpr src=%q", src)
	w.Begin(idx, desc)
	cfg := AllDice()
	cfg.Seed = r.U64() | 1
	vm := cfg.NewVM()
	var log []string
	_ = vm.RegCustomDiceParser(
		func(ctx *ds.Context, stream *ds.CustomDiceStream) (*ds.CustomDiceParseResult, error) {
			c, ok := stream.Read()
			if !ok || c != 'R' {
				stream.ResetAttempt()
				return &ds.CustomDiceParseResult{Matched: false}, nil
			}
			expr, matched, err := stream.ReadExpr("")
			if err != nil {
				return nil, err
			}
			if !matched {
				stream.ResetAttempt()
				return &ds.CustomDiceParseResult{Matched: false}, nil
			}
			stream.Commit()
			return &ds.CustomDiceParseResult{Groups: []string{stream.Current()}, Payload: expr, Matched: true}, nil
		},
		func(ctx *ds.Context, groups []string, raw any) (*ds.VMValue, string, error) {
			log = append(log, groups[0])
			res := raw.(*ds.VMValue).ComputedExecute(ctx, &ds.BufferSpan{})
			if ctx.Error != nil {
				return nil, "", ctx.Error
			}
			return res, groups[0], nil
		},
	)
	var err error
	pv, st := fw.Guard(func() { err = vm.Run(src) })
	w.Eval(1)
	w.Count("readexpr_programs", 1)
	if pv != nil {
		w.Violate(idx, "panic", fw.PanicKey(pv, st), desc, fmt.Sprint(pv), nil)
		return
	}
	if err != nil {
		w.Count("readexpr_rejected", 1)
		return
	}
	if len(log) != 1 {
		w.Violate(idx, "extension", "ext|readexpr|count", desc, fmt.Sprintf("handler ran %d times: %q", len(log), log), nil)
		return
	}
	if got := log[0]; got != strings.TrimSpace(got) || !strings.HasPrefix(got, "R"+e[:1]) {
		w.Violate(idx, "extension", "ext|readexpr|matched-text", desc, fmt.Sprintf("the handler received %q as the matched text (blanks or line breaks that belong to what follows)", got), nil)
	}
	var d string
	fw.Guard(func() { d = vm.GetDetailText() })
	if strings.Contains(d, " ]") || strings.Contains(d, "\t]") || strings.Contains(d, "\n]") {
		w.Violate(idx, "extension", "ext|readexpr|detail", desc, fmt.Sprintf("process text %q carries blanks of the following text inside the operand's annotation", d), nil)
	}
	w.Note(fw.Hash64(desc))
}

// c17LazyInside: values whose code is compiled at first use (decoded from JSON, made by the host,
// served by the global loader) and whose first use happens inside the body of a function that is
// already compiled: the registered syntax acts there exactly as at top level.
func c17LazyInside(w *fw.W, idx int, r *fw.Rand) {
	k1, k2, k3 := 1+r.Intn(40), 1+r.Intn(40), 1+r.Intn(40)
	cfg := AllDice()
	cfg.Seed = r.U64() | 1
	cfg.OpLimit = 30000
	vm := cfg.NewVM()
	var log []string
	_ = vm.RegCustomDice(`E(\d+)`, func(ctx *ds.Context, groups []string, _ any) (*ds.VMValue, string, error) {
		log = append(log, groups[0])
		k, _ := strconv.Atoi(groups[1])
		return ds.NewIntVal(ds.IntType(k)), "", nil
	})
	if fv, err := ds.VMValueFromJSON([]byte(fmt.Sprintf(`{"t":8,"v":{"expr":"E%d * v","name":"hf","params":["v"]}}`, k1))); err == nil {
		vm.Attrs.Store("hf", fv)
	}
	vm.Attrs.Store("hz", ds.NewComputedVal(fmt.Sprintf("E%d + 1", k2)))
	glob := ds.NewComputedVal(fmt.Sprintf("E%d", k3))
	vm.GlobalValueLoadFunc = func(name string) *ds.VMValue {
		if name == "gz" {
			return glob
		}
		return nil
	}
	shape := r.Intn(4)
	src := []string{
		"func w1() { hf(2) + hz + gz }; w1()",
		"func w2() { func w3() { hz + gz }; w3() + hf(2) }; w2()",
		"&cw = hf(2) + hz + gz; func w4() { cw }; w4()",
		"func w5(v) { v + hz }; w5(hf(2)) + `{gz}`*1 + gz*0",
	}[shape]
	want := int64(k1*2 + k2 + 1 + k3)
	desc := fmt.Sprintf("lazy-inside shape=%d src=%q (hf=E%d*v from JSON, hz=E%d+1 host computed, gz=E%d via global loader)", shape, src, k1, k2, k3)
	w.Begin(idx, desc)
	var err error
	pv, st := fw.Guard(func() { err = vm.Run(src) })
	w.Eval(1)
	w.Count("lazy_inside_programs", 1)
	if pv != nil {
		w.Violate(idx, "panic", fw.PanicKey(pv, st), desc, fmt.Sprint(pv), nil)
		return
	}
	if shape == 3 {
		// `{gz}`*1 is a string repetition error or concatenation depending on types: only the log matters
		want = -1
	}
	if err != nil && shape != 3 {
		w.Violate(idx, "extension", "ext|lazy-inside|rejected", desc, firstLine(err.Error()), nil)
		return
	}
	if want >= 0 {
		if got, ok := vm.Ret.ReadInt(); !ok || int64(got) != want {
			w.Violate(idx, "extension", "ext|lazy-inside|value", desc, fmt.Sprintf("result %s, want %d (handler log %v)", vm.Ret.ToString(), want, log), nil)
		}
	}
	seen := map[string]int{}
	for _, l := range log {
		seen[l]++
	}
	for _, e := range []string{fmt.Sprintf("E%d", k1), fmt.Sprintf("E%d", k2), fmt.Sprintf("E%d", k3)} {
		if seen[e] == 0 {
			w.Violate(idx, "extension", "ext|lazy-inside|handler-not-run", desc, fmt.Sprintf("the handler never ran for %s (log %v): the syntax was not recognised in code compiled at first use inside a compiled body", e, log), nil)
			return
		}
	}
	w.Note(fw.Hash64(desc))
}

// c17UnreadParser: a stream syntax with two notations ("Y12!" and "Y12", lead character ASCII or
// multi-byte) whose parser rewinds a failed first notation with Unread() instead of
// ResetAttempt(): Unread gives back exactly what Read / ReadDigits consumed, one character a call.
func c17UnreadParser(w *fw.W, idx int, r *fw.Rand) {
	lead := fw.PickT(r, []rune{'Y', '骰', 'é', '🎲'})
	k1, k2 := r.Intn(1000), r.Intn(1000)
	bang := r.Bool()
	op1 := fmt.Sprintf("%c%d", lead, k1)
	if bang {
		op1 += "!"
	}
	op2 := fmt.Sprintf("%c%d", lead, k2)
	src := op1 + r.Pick([]string{" + ", "+", " * 1 + "}) + op2
	desc := fmt.Sprintf("unread-parser src=%q", src)
	w.Begin(idx, desc)
	cfg := AllDice()
	cfg.Seed = r.U64() | 1
	vm := cfg.NewVM()
	var log []string
	_ = vm.RegCustomDiceParser(func(ctx *ds.Context, s *ds.CustomDiceStream) (*ds.CustomDiceParseResult, error) {
		c, ok := s.Read()
		if !ok || c != lead {
			s.ResetAttempt()
			return &ds.CustomDiceParseResult{Matched: false}, nil
		}
		d, ok := s.ReadDigits()
		if !ok {
			s.ResetAttempt()
			return nil, nil
		}
		if nx, ok := s.Read(); ok && nx == '!' {
			return &ds.CustomDiceParseResult{Matched: true, Groups: []string{s.Current(), d, "A"}}, nil
		}
		// second notation: give everything back one character at a time and read it again
		for s.Unread() {
		}
		if c2, ok := s.Read(); !ok || c2 != lead {
			s.ResetAttempt()
			return nil, nil
		}
		d2, ok := s.ReadDigits()
		if !ok {
			s.ResetAttempt()
			return nil, nil
		}
		return &ds.CustomDiceParseResult{Matched: true, Groups: []string{s.Current(), d2, "B"}}, nil
	}, func(ctx *ds.Context, groups []string, _ any) (*ds.VMValue, string, error) {
		log = append(log, strings.Join(groups, "|"))
		k, _ := strconv.Atoi(groups[1])
		return ds.NewIntVal(ds.IntType(k)), "", nil
	})
	var err error
	pv, st := fw.Guard(func() { err = vm.Run(src) })
	w.Eval(1)
	w.Count("unread_parser_programs", 1)
	if pv != nil {
		w.Violate(idx, "panic", fw.PanicKey(pv, st), desc, fmt.Sprint(pv), nil)
		return
	}
	kindA := "B"
	if bang {
		kindA = "A"
	}
	want := []string{fmt.Sprintf("%s|%d|%s", op1, k1, kindA), fmt.Sprintf("%s|%d|B", op2, k2)}
	if err != nil || fmt.Sprint(log) != fmt.Sprint(want) {
		w.Violate(idx, "extension", "ext|unread-parser|log", desc, fmt.Sprintf("error %v, handler log %q, want %q", err, log, want), nil)
		return
	}
	if got, ok := vm.Ret.ReadInt(); !ok || (int(got) != k1+k2 && !strings.Contains(src, "* 1")) {
		w.Violate(idx, "extension", "ext|unread-parser|value", desc, fmt.Sprintf("result %s, want %d", vm.Ret.ToString(), k1+k2), nil)
	}
	w.Note(fw.Hash64(desc))
}

func c17Match(w *fw.W, idx int, r *fw.Rand) {
	if r.P(1, 20) {
		c17Overlap(w, idx, r)
		return
	}
	if r.P(1, 20) {
		c17UnreadParser(w, idx, r)
		return
	}
	if r.P(1, 20) {
		c17LazyInside(w, idx, r)
		return
	}
	if r.P(1, 20) {
		c17ReadExpr(w, idx, r)
		return
	}
	n := r.Range(1, 3)
	var srcs []string
	var want []string
	for i := 0; i < n; i++ {
		f := c17Fragment(r)
		srcs = append(srcs, f.src)
		want = append(want, f.log...)
	}
	src := strings.Join(srcs, r.Pick([]string{"; ", ";\n", " ; "}))
	tail := ""
	if r.P(1, 4) {
		t, _ := c17Operand(r)
		tail = r.Pick([]string{" reason " + t, "\n[" + t + ", 1", " 理由" + t, " (" + t, " " + t, "  " + t + " +", " 。" + t})
		src += "; 7" // a block statement needs no separator before the next statement, so end with an expression
	}
	desc := fmt.Sprintf("src=%q tail=%q", src, tail)
	w.Begin(idx, desc)
	var log []string
	var returned []*ds.VMValue
	var snapshots []string
	cfg := AllDice()
	cfg.Seed = r.U64() | 1
	cfg.OpLimit = 30000
	vm := cfg.NewVM()
	pooled := r.Bool() // a handler that reuses one result object for every call
	pool := ds.NewIntVal(0)
	// the same syntax written with and without an explicit anchor at the start of the operand: a
	// pattern is matched against the text that starts at the operand, so all spellings are equivalent
	anchors := []string{"", "", "^", `\A`, "(?m)^", "(?s)^"}
	reE := anchors[r.Intn(len(anchors))] + `E(\d+)`
	reAlt := `K(\d+)|J(\d+)`
	if a := anchors[r.Intn(len(anchors))]; a != "" {
		reAlt = a + `(?:K(\d+)|J(\d+))`
	}
	reNever := anchors[r.Intn(len(anchors))] + `ZZZ(\d+)QQ`
	regRe := func() {
		_ = vm.RegCustomDice(reE, func(ctx *ds.Context, groups []string, _ any) (*ds.VMValue, string, error) {
			log = append(log, "re|"+groups[0]+"|"+groups[1])
			k, _ := strconv.Atoi(groups[1])
			if pooled {
				pool.Value = ds.IntType(k)
				return pool, "", nil
			}
			v := ds.NewIntVal(ds.IntType(k))
			returned = append(returned, v)
			snapshots = append(snapshots, Canon(v))
			return v, "", nil
		})
	}
	regStream := func() {
		_ = vm.RegCustomDiceParser(func(ctx *ds.Context, s *ds.CustomDiceStream) (*ds.CustomDiceParseResult, error) {
			c, ok := s.Read()
			if !ok || c != 'X' {
				s.ResetAttempt()
				return &ds.CustomDiceParseResult{Matched: false}, nil
			}
			d, ok := s.ReadDigits()
			if !ok {
				s.ResetAttempt()
				return nil, nil
			}
			c, ok = s.Read()
			if !ok || c != '!' {
				s.ResetAttempt()
				return nil, nil
			}
			return &ds.CustomDiceParseResult{Matched: true, Groups: []string{"", d}, Payload: d}, nil
		}, func(ctx *ds.Context, groups []string, payload any) (*ds.VMValue, string, error) {
			log = append(log, "st|"+groups[0]+"|"+groups[1])
			if p, _ := payload.(string); p != groups[1] {
				log = append(log, "payload-mismatch")
			}
			k, _ := strconv.Atoi(groups[1])
			v := ds.NewIntVal(ds.IntType(k))
			returned = append(returned, v)
			snapshots = append(snapshots, Canon(v))
			return v, "", nil
		})
	}
	regAlt := func() {
		_ = vm.RegCustomDice(reAlt, func(ctx *ds.Context, groups []string, _ any) (*ds.VMValue, string, error) {
			num := groups[1]
			if num == "" && len(groups) > 2 {
				num = groups[2]
			}
			log = append(log, "alt|"+groups[0]+"|"+num)
			k, _ := strconv.Atoi(num)
			if pooled {
				pool.Value = ds.IntType(k)
				return pool, "", nil
			}
			v := ds.NewIntVal(ds.IntType(k))
			returned = append(returned, v)
			snapshots = append(snapshots, Canon(v))
			return v, "", nil
		})
	}
	regNever := func() {
		_ = vm.RegCustomDice(reNever, func(ctx *ds.Context, groups []string, _ any) (*ds.VMValue, string, error) {
			log = append(log, "never-matching handler called")
			return ds.NewIntVal(0), "", nil
		})
	}
	// never-matching stream parsers that read ahead and return without giving anything back:
	// the library rewinds the stream for the next registered syntax
	regGreedy := func() {
		mode := r.Intn(3)
		_ = vm.RegCustomDiceParser(func(ctx *ds.Context, s *ds.CustomDiceStream) (*ds.CustomDiceParseResult, error) {
			switch mode {
			case 0:
				s.Read()
				s.Read()
				s.ReadDigits()
				return nil, nil
			case 1:
				_, _, _ = s.ReadExpr("")
				return &ds.CustomDiceParseResult{Matched: false}, nil
			default:
				for i := 0; i < 50; i++ {
					if _, ok := s.Read(); !ok {
						break
					}
				}
				return &ds.CustomDiceParseResult{Matched: false}, nil
			}
		}, func(ctx *ds.Context, groups []string, _ any) (*ds.VMValue, string, error) {
			log = append(log, "never-matching stream handler called")
			return ds.NewIntVal(0), "", nil
		})
	}
	regs := []func(){regRe, regStream, regNever, regAlt, regGreedy}
	for _, i := range r.Perm(5) {
		regs[i]()
	}
	var err error
	pv, st := fw.Guard(func() { err = vm.Run(src + tail) })
	w.Eval(1)
	w.Count("match_programs", 1)
	if pv != nil {
		w.Violate(idx, "panic", fw.PanicKey(pv, st), desc, fmt.Sprint(pv), nil)
		return
	}
	if err != nil {
		w.Violate(idx, "extension", "ext|match|rejected", desc, "a program with custom operands at operand positions was rejected: "+firstLine(err.Error()), nil)
		return
	}
	if strings.TrimSpace(vm.RestInput) != strings.TrimSpace(tail) {
		w.Violate(idx, "extension", "ext|match|rest", desc, fmt.Sprintf("RestInput=%q, expected the tail %q", vm.RestInput, tail), nil)
		return
	}
	if fmt.Sprint(log) != fmt.Sprint(want) {
		w.Violate(idx, "extension", "ext|match|log", desc, fmt.Sprintf("handler log %v, expected %v", log, want), nil)
	}
	for i, v := range returned {
		if vm.Ret == v {
			w.Violate(idx, "extension", "ext|match|alias", desc, "Ret is the very object the handler returned (must be used by copy)", nil)
		}
		if Canon(v) != snapshots[i] {
			w.Violate(idx, "extension", "ext|match|handler-value-modified", desc, fmt.Sprintf("handler value %s became %s", snapshots[i], Canon(v)), nil)
		}
	}
	// the value recorded for each custom operand (spans of the top-level program) is that
	// operand's own value, whatever the handler does with its result object afterwards
	for _, s := range vm.DetailSpans {
		if s.Tag != "dice-custom" || s.Ret == nil {
			continue
		}
		txt := (src + tail)[s.Begin:minInt(int(s.End), len(src+tail))]
		digits := strings.TrimRight(strings.TrimLeft(txt, "EXJK"), "!")
		want, err := strconv.Atoi(digits)
		got, ok := s.Ret.ReadInt()
		if err == nil && (!ok || int(got) != want) {
			w.Violate(idx, "extension", "ext|match|span-value", desc, fmt.Sprintf("operand %q is recorded with value %s (pooled handler result: %v)", txt, s.Ret.ToRepr(), pooled), nil)
		}
		w.Count("custom_spans_checked", 1)
	}
	w.Count("handler_invocations", int64(len(log)))
	w.Note(fw.Hash64(desc))
	if idx%4000 == 1 {
		w.Sample(map[string]any{"class": "matching", "src": src + tail, "log": log})
	}
}

func c17N(tier string) int {
	if tier == "thorough" {
		return 600000
	}
	return 40000
}

func init() {
	fw.Register(&fw.Prop{
		ID:      "C17",
		AsLimit: true,
		NCases:  c17N,
		Run: func(w *fw.W, idx int, r *fw.Rand) {
			if idx%2 == 0 {
				c17Twin(w, idx, r)
			} else {
				c17Match(w, idx, r)
			}
		},
		Floors: func(tier string) map[string]int64 {
			return map[string]int64{"twins_accepted": 6000, "match_programs": 15000, "handler_invocations": 20000}
		},
		Rule:        "50% twins: the same program (valid programs, dice, corpus, statement nests, valid+tail, mutated corpus × configuration × seed) on a plain VM and on a VM with a random subset/order of never-matching regex syntaxes, stream parsers that read ahead (Read/ReadDigits/ReadExpr/Unread) and give back, a zero-width 'match', identity load/store hooks and identity detail rewriters: error text, Ret, detail, Matched/RestInput, variables and generator state must be equal. 50% matching syntaxes (regex E(\\d+), stream X<digits>!, registered in random order with a never-matching one): programs composed of 22 fragment shapes with a known evaluation count per operand (loops ×n, untaken branches 0, short-circuit, functions, computed values, templates, containers, call arguments, rest input 0): the handler log (kind, matched text, group, payload) must equal the expected sequence; Ret must not alias and the handler's value must stay unchanged. distinct = hash(source, configuration) The matching regex syntaxes are registered with and without an explicit start anchor (^, \\A, (?m)^, (?s)^).",
		Assumptions: []string{"whether && evaluates its right operand after a falsy left one is not used by the fragments"},
	})
}
