// Package gen holds the workload generators shared by the property checks.
package gen

import (
	"fmt"
	"os"
	"path/filepath"
	"regexp"
	"strconv"
	"strings"
	"sync"

	"verif/internal/fw"
	"verif/internal/ref"
)

// HostileVals are operand spellings of every value kind, including boundary numbers.
var HostileVals = []string{"1", "0", "(0-1)", "1.5", "'s'", "null", "[1,2]", "[]", "{'k':1}", "{}", "toStr", "xs.push",
	"9223372036854775807", "(0-9223372036854775807)", "2", "20", "100", "(0-9223372036854775807-1)", "4611686018427387905", "&cv", "ff", "''", "0.0", "[[1]]", "512", "513", "30001",
	"8", "64", "63", "65", "(0-8)", "(0-64)", "7", "3", "4", "16", "dd", "xs", "s8", "s64", "len", "keys", "__proto__", "push", "k",
	"cyc", "cyd", "dag", "dag", "[cyc]", "{'c': cyd}"}

// HostilePrelude2 adds values with reference cycles and with exponentially shared sub-structure
// (30 levels of [dag, dag]: 31 arrays, 2^30 paths); cyc/cyd/dag are null without it.
var HostilePrelude2 = "cyc = [1]; cyc[0] = cyc; cyd = {}; cyd.me = cyd; dag = [1]; di = 0; while di < 30 { dag = [dag, dag]; di = di + 1 }; "

// OperandTemplates: every operator/dice slot/method with %s operand holes.
var OperandTemplates = []string{
	"(%s)d6", "2d(%s)", "2d6k(%s)", "2d6q(%s)", "2d6dh(%s)", "2d6dl(%s)", "2d6min(%s)", "2d6max(%s)", "(%s)d(%s)", "d(%s)", "(%s)d", "(%s)d6k(%s)",
	"b(%s)", "p(%s)", "(%s)a5", "2a(%s)", "2a5m(%s)", "2a5k(%s)", "2a5q(%s)", "(%s)a(%s)m(%s)", "(%s)c5", "2c(%s)", "2c5m(%s)", "(%s)c(%s)m(%s)",
	"xs.kh(%s)", "xs.kl(%s)", "xs.randSize(%s)", "xs.push(%s)", "xs[%s]", "xs[%s:]", "xs[:%s]", "xs[%s:%s]", "xs[0:1] = %s", "xs[%s] = 1", "xs[%s:%s] = [7]",
	"ys.rand()", "ys.randSize(%s)", "ys.kh(%s)", "ys.pop()", "ys.shift()", "ys.sum()", "ys.shuffle()", "xs.rand()", "xs.shuffle()",
	"dd[%s]", "dd[%s] = 1", "dd.x = %s", "[%s..3]", "[1..%s]", "[%s..%s]", "[1]*%s", "%s * [1]", "xs * %s", "`{%s}`", "`{% %s %}`", "ceil(%s)", "floor(%s)", "round(%s)", "abs(%s)", "toInt(%s)", "toFloat(%s)", "toStr(%s)", "repr(%s)", "toBool(%s)", "typeId(%s)", "load(%s)", "loadRaw(%s)", "store(%s, 1)", "store('q', %s)", "dir(%s)",
	"%s ? 1 : 2", "%s ? 1, %s ? 2", "%s || 1", "%s && 1", "-%s", "+%s", "%s + %s", "%s - %s", "%s * %s", "%s / %s", "%s ** %s", "%s % %s", "%s ?? %s", "%s < %s", "%s == %s", "%s & %s", "%s | %s",
	"%s[%s]", "%s.x", "%s()", "%s(1)", "%s(1,2)", "%s.len()", "%s.keys()", "%s.values()", "%s.items()", "%s.compute()", "%s.kh()", "%s.sum()", "[%s]kh", "[%s]kl2", "[%s,%s]kh(%s)",
	"&z = %s; z", "&z = %s; z.x", "&z = %s; &z.y = %s; z.y", "func g(v){ v }; g(%s)", "func g(v){ return v + %s }; g(%s)", "if %s { 1 }", "if %s { 1 } else { %s }", "while %s { break }", "i=0; while i < 3 { i = i + 1; %s }",
	"this.q = %s; q", "this[%s]", "xs.push(xs); %s", "dd.me = dd; %s", "%s; xs", "[x,2]\n[x,%s]", "return %s", "1 + %s reason",
	"s8[%s]", "s64[%s]", "s64[%s:%s]", "s8[%s] + s64[%s]", "dd.__proto__ = dd; dd.%s", "dd.__proto__ = {'__proto__': dd}; dd.zz + %s", "pa = {'q': 1}; dd.__proto__ = pa; pa.__proto__ = dd; dd.nope; %s",
	"xs[%s].%s", "xs.%s", "dd.%s(%s)", "s64.%s", "(%s).len()",
	"xs.push(xs); ys.push(ys); xs == ys", "dd.me = dd; ee = {'k':1}; ee.me = ee; [dd == ee, dd != ee, %s == dd]", "xs[0] = xs; ys = [1]; ys[0] = ys; xs == ys",
	"x=[1]; i=0; while i<14 { x=[x,x]; i=i+1 }; y=[1]; i=0; while i<14 { y=[y,y]; i=i+1 }; [x == y, %s]",
	"^sta-%s", "^sta+%s", "^sta:%s", "^sta*%s:%s", "^st&a=%s", "^st'a 1'+=%s", "^sta%s b%s", "^sta-=%s", "^sta*:%s",
}

var HostilePrelude = "xs=[1,2,3]; ys=[]; dd={'k':1}; ff = 2.5; &cv = d6 + 1; s8 = '01234567'; s64 = '0123456789012345678901234567890123456789012345678901234567890123'; "

// StructTemplates: every operation that walks or copies a container, applied (%c) to values with
// reference cycles or exponentially shared sub-structure.
var StructTemplates = []string{
	"%c * 2", "2 * %c", "%c * 3", "%c + %c", "%c + [1]", "[1] + %c", "%c[0:1]", "%c[:]", "%c[0]", "%c[0][0][0][0]", "toStr(%c)", "repr(%c)", "`{%c}`", "`{%c}{%c}`",
	"%c == %c", "%c != %c", "%c < %c", "%c.len()", "%c.sum()", "%c.kh()", "%c.kl(1)", "[%c]kh", "%c.keys()", "%c.values()", "%c.items()", "store('q', %c); q", "func g(v){ v }; g(%c)",
	"func g(v){ return [v, v] }; g(%c)", "&z = %c; z", "xs.push(%c); xs", "%c[0:1] = %c", "%c[0:0] = %c", "%c.shuffle()", "%c.rand()", "%c.randSize(1)", "dir(%c)", "typeId(%c)", "toBool(%c)",
	"toInt(%c)", "%c ? 1 : 2", "%c || 1", "%c && 1", "-%c", "abs(%c)", "%c.pop()", "%c.shift()", "%c.push(%c)", "%c.me.me.me", "%c ?? 1", "[%c, %c]", "{'k': %c}", "%c.x = %c", "y = %c; y[0] = 1; %c",
	"%c d6", "2d(%c)", "b(%c)", "xs[%c]", "dd[%c]", "dd[%c] = 1", "[%c..3]", "^sta:%c", "^sta+%c", "if %c { 1 }", "while %c { break }", "%c(1)", "%c.compute()", "ceil(%c)", "load(%c)", "1 + %c reason",
}

// Matrix returns the idx-th operand-matrix program.
func Matrix(r *fw.Rand) string {
	if r.P(1, 6) {
		src := r.Pick(StructTemplates)
		for strings.Contains(src, "%c") {
			src = strings.Replace(src, "%c", r.Pick([]string{"cyc", "cyd", "dag", "dag", "[dag]", "[cyc, cyc]", "{'k': dag}", "cyd.me", "dag[0]"}), 1)
		}
		if strings.HasPrefix(src, "^st") {
			return src
		}
		return HostilePrelude + HostilePrelude2 + src
	}
	t := r.Pick(OperandTemplates)
	src := t
	for strings.Contains(src, "%s") {
		src = strings.Replace(src, "%s", r.Pick(HostileVals), 1)
	}
	if r.P(7, 8) && !strings.HasPrefix(src, "^st") {
		if r.P(1, 3) {
			src = HostilePrelude2 + src
		}
		src = HostilePrelude + src
	}
	return src
}

// Ladder returns a nesting ladder around the built-in limits.
func Ladder(r *fw.Rand) string {
	depths := []int{1, 2, 5, 18, 19, 20, 21, 22, 25, 40, 64}
	n := fw.PickT(r, depths)
	if r.P(1, 12) {
		// nesting far beyond anything sensible (inputs of 10–100 KB): the recursive-descent parser
		// must refuse, not exhaust the goroutine stack
		deep := fw.PickT(r, []int{1100, 5000, 30000})
		open := r.Pick([]string{"(1+", "(", "[", "[1,", "{'k':", "`{", "1d(", "x[", "-(", "toStr(", "(x ? ", "1 ? (", "[[", "((1)+("})
		src := strings.Repeat(open, deep) + "1"
		if r.P(1, 3) && deep <= 5000 {
			src += strings.Repeat(map[string]string{"(1+": ")", "(": ")", "[": "]", "[1,": "]", "{'k':": "}", "`{": "}`", "1d(": ")", "x[": "]", "-(": ")", "toStr(": ")", "(x ? ": " : 2)", "1 ? (": ") : 2", "[[": "]]", "((1)+(": "))"}[open], deep)
		}
		return src
	}
	if r.P(1, 4) {
		// an operator nested in its own operand positions (every operator that keeps per-term state),
		// and per-term state abandoned by leaving a loop iteration from inside an operand
		n = fw.PickT(r, []int{2, 8, 15, 16, 17, 18, 33, 65, 100})
		open := r.Pick([]string{"1d(", "2d6kh(", "2d6kl(", "3d6dh(", "2d6min(", "2d6max(", "(1d", "1a(", "2a11m(", "2a11k(", "1c(", "2c11m(", "b(", "p(", "1d(1+", "d(", "2d(1)d(", "-(", "!(", "f(", "x[", "[1,", "{'k':", "1 ? (", "0 || (", "toStr(", "abs(-", "`{", "&c=(", "1 ?? (", "2**("})
		core := r.Pick([]string{"1d6", "2", "1d1", "x", "f"})
		close := strings.Repeat(")", strings.Count(open, "(")-strings.Count(open, ")"))
		switch {
		case strings.HasPrefix(open, "(1d"):
			return strings.Repeat("(", n) + "1d6" + strings.Repeat(")d6", n)
		case open == "x[":
			return "x=[0]; " + strings.Repeat("x[", n) + "0" + strings.Repeat("]", n)
		case open == "[1,":
			return strings.Repeat("[1,", n) + core + strings.Repeat("]", n)
		case open == "{'k':":
			return strings.Repeat("{'k':", n) + core + strings.Repeat("}", n)
		case open == "`{":
			return strings.Repeat("`{", n) + core + strings.Repeat("}`", n)
		}
		if r.P(1, 5) {
			return fmt.Sprintf("i=0; while i<%d { i=i+1; %s`{%% continue %%}`%s }; i", n+3, open, close)
		}
		if r.P(1, 6) {
			return fmt.Sprintf("func g(n) { if n < 1 { return 1 }; %sg(n-1)%s }; g(%d)", open, close, n)
		}
		return strings.Repeat(open, n) + core + strings.Repeat(close, n)
	}
	switch r.Intn(14) {
	case 0:
		return strings.Repeat("if 1 {", n) + "1" + strings.Repeat("}", n)
	case 1:
		return "`" + strings.Repeat("{`", n) + "1" + strings.Repeat("`}", n) + "`"
	case 2:
		return "`" + strings.Repeat("{% `", n) + "1" + strings.Repeat("` %}", n) + "`"
	case 3:
		return fmt.Sprintf("i=0; while i<%d { i=i+1; if 1 { continue } }; i", n)
	case 4:
		return fmt.Sprintf("i=0; while i<%d { i=i+1; if i > 2 { break } }; i", n)
	case 5:
		return strings.Repeat("(", n*8) + "1" + strings.Repeat(")", n*8)
	case 6:
		return strings.Repeat("[", n*4) + "1" + strings.Repeat("]", n*4)
	case 7:
		return "i=0; " + strings.Repeat("while i < 2 { i = i + 1; ", n) + "1" + strings.Repeat("}", n)
	case 8:
		return fmt.Sprintf("func f(n) { if n < 1 { return 0 }; return 1 + f(n-1) }; f(%d)", n*10)
	case 9:
		return "&a = a; a"
	case 10:
		return "&a = b; &b = a; a + 1"
	case 11:
		m := []int{998, 999, 1000, 1001, 511, 512, 513, 2000}[r.Intn(8)]
		el := r.Pick([]string{"1", "[]", "{}", "f", "'s'", "x", "d1", "b0", "`t`", "1"})
		return "[" + strings.TrimSuffix(strings.Repeat(el+",", m), ",") + "]"
	case 12:
		m := []int{4095, 4096, 4097, 5000, 8191, 8192, 8193, 6000}[r.Intn(8)]
		return strings.TrimSuffix(strings.Repeat("1+", m), "+")
	default:
		return strings.Repeat("func f() {", n) + "1" + strings.Repeat("}", n)
	}
}

// Doubling returns growth constructs that must be stopped by the budget.
func Doubling(r *fw.Rand) string {
	if r.P(1, 6) {
		// growth through slice assignment (the array is its own source, or two arrays feed each other)
		return r.Pick([]string{
			"a=[1,2]; i=0; while i < 60 { a[0:0] = a; i = i + 1 }; 1",
			"a=[1,2]; i=0; while i < 60 { a[1:1] = a[:]; i = i + 1 }; a.len()",
			"a=[1,2]; while 1 { a[0:0] = a }",
			"a=[1,2]; b=[3]; i=0; while i < 80 { a[0:0] = b; b[0:0] = a; i = i + 1 }; 1",
			"a=[1,2]; i=0; while i < 60 { a[:] = a + a; i = i + 1 }; 1",
			"a=[[1,2]]; i=0; while i < 60 { a[0][0:0] = a[0]; i = i + 1 }; 1",
			"func g(v) { v[0:0] = v; v }; a=[1,2]; i=0; while i < 60 { a = g(a); i = i + 1 }; 1",
			"a=[1,2]; i=0; while i < 60 { a[a.len():100000] = a; i = i + 1 }; 1",
			"a=[1,2]; i=0; while i < 60 { a[a.len():9223372036854775807] = a; i = i + 1 }; 1",
			"a=[1,2]; i=0; while i < 60 { a[a.len():4611686018427387904] = a + a; i = i + 1 }; 1",
			"a=[1,2]; i=0; while i < 60 { a[(0-9223372036854775807):0] = a; i = i + 1 }; 1",
			"a=[0]*512; a[512:9999] = a; a[600:99999999] = a; a.len()",
			"a=[1,2]; i=0; while i < 60 { a[100000:] = a; i = i + 1 }; 1",
			"a=[1,2]; i=0; while i < 60 { a[(0-100000):0] = a; i = i + 1 }; 1",
			"a=[1,2]; i=0; while i < 60 { a[a.len():a.len()] = a; i = i + 1 }; 1",
			"a=[1,2]; i=0; while i < 60 { a[9223372036854775807:9223372036854775807] = a; i = i + 1 }; 1",
		})
	}
	if r.P(1, 8) {
		// strings that grow through the result of a native function or method
		return r.Pick([]string{
			"x='abcdefgh'; i=0; while i < 60 { x = toStr([x, x]); i = i + 1 }; 1",
			"x='abcdefgh'; i=0; while i < 60 { x = repr([x, x]); i = i + 1 }; 1",
			"x='abcdefgh'; i=0; while i < 60 { x = toStr({'a': x, 'b': x}); i = i + 1 }; 1",
			"x='abcdefgh'; i=0; while i < 60 { x = toStr(x) + toStr(x); i = i + 1 }; 1",
			"x=['abcdefgh']; i=0; while i < 60 { x = [toStr(x), toStr(x)]; i = i + 1 }; 1",
		})
	}
	if r.P(1, 10) {
		// expensive computed values read from scopes several calls below the one that owns them
		z := r.Pick([]string{"&z = 2500d1", "&z = 400d1 + 400d1", "&z = [1..400].sum() + 300d1"})
		return z + "; " + r.Pick([]string{
			"func zg() { z }; func zf() { zg() + zg() }; while 1 { zf() }",
			"func zf() { &y = z; y }; while 1 { zf() }",
			"func zg() { z }; func zf() { zg() }; func ze() { zf() }; i = 0; while i < 100000 { ze(); i = i + 1 }",
			"&y = z; &x = y; func zf() { x }; while 1 { zf() }",
			"func zf() { `{z}{z}` }; func ze() { zf() }; while 1 { ze() }",
		})
	}
	if r.P(1, 12) {
		// modifier counts far beyond the number of dice
		huge := []int64{1000000000, 100000000000, 4611686018427387904, 9223372036854775807, 30001}[r.Intn(5)]
		return fmt.Sprintf("%s%s%d", r.Pick([]string{"2d6", "3d20", "10d1", "d6", "2d"}), r.Pick([]string{"k", "kh", "kl", "q", "dl", "dh", "min", "max"}), huge)
	}
	switch r.Intn(12) {
	case 0:
		return "x='ab'; i=0; while i < 60 { x = x + x; i = i + 1 }; 1"
	case 1:
		return "x=[1]; i=0; while i < 60 { x = x + x; i = i + 1 }; 1"
	case 2:
		return "x=[1]; i=0; while 1 { x.push(x); i = i + 1 }; 1"
	case 3:
		return "while 1 { }"
	case 4:
		return "x = `a`; i=0; while i < 50 { x = `{x}{x}`; i=i+1 }; 1"
	case 5:
		return "d = {}; i = 0; while 1 { d[i] = d; i = i + 1 }"
	case 6:
		return fmt.Sprintf("%dd%d", []int64{100000, 1 << 40, 9223372036854775807, 30001, 29999}[r.Intn(5)], []int64{6, 100, 1 << 40}[r.Intn(3)])
	case 7:
		return fmt.Sprintf("1a2m%d", []int64{100000000, 1 << 40, 3}[r.Intn(3)])
	case 8:
		return fmt.Sprintf("1c2m%d", []int64{100000000, 1 << 40, 3}[r.Intn(3)])
	case 9:
		return fmt.Sprintf("%s(%d)", r.Pick([]string{"b", "p"}), []int64{100000, 9223372036854775807, 30001}[r.Intn(3)])
	case 10:
		return fmt.Sprintf("xs=[1,2,3]; xs.%s(%d)", r.Pick([]string{"kh", "kl"}), []int64{100000, 9223372036854775807}[r.Intn(2)])
	default:
		return fmt.Sprintf("20000a2m%d", []int64{1000000, 2, 3}[r.Intn(3)])
	}
}

var (
	corpusOnce sync.Once
	corpus     []string
)

var ownCorpus = []string{
	"1+2*3", "2d6+3", "d20优势", "3d6kh2", "4d6dl1min2max5", "b2", "p1", "f", "5a8", "3c8", "10a10m8k6", "2c5m12",
	"a = 1; b = a + 2", "if a { 1 } else { 2 }", "i = 0; while i < 5 { i = i + 1 }", "func add(x, y) { return x + y }; add(1, 2)",
	"`a{1+1}b{% x = 3 %}c`", "'a\\n\\'b'", "\"x\\\"y\"", "[1,2,3][1]", "[1..5]", "{'a': 1, 'b': [2, 3]}.a", "x[0:2]", "x[1] = 5", "d.k = 1",
	"&v = d6 + 1; v", "&v.x = 3", "this.x = 5", "1 ? 2 : 3", "a > 1 ? 'x', a > 0 ? 'y', 1 ? 'z'", "a || b && c", "a ?? 1", "1 < 2 == 1", "-d6", "+3", "2 ** 3 ^ 2",
	"^st 力量60敏捷70", "^st 力量:60 敏捷=70", "^st 力量+1d4", "^st 力量-=2", "^st &手枪=1d6+2", "^st 属性*2.5:5", "^st '力量 1':3",
	"// #EnableDice wod true\n5a8", "1 // comment", "[3,1,2].kh(2)", "[3,1,2]kl", "[1,2].push(3)", "dir([])", "load('a')", "store('a', 1)", "toStr({'a':1})", "floor(2.5) + ceil(2.5) + round(2.5)",
	"力量 + 1", "$t1 = 3", "a:b = 1", "（1+2）", "1 ＋ 2 ＊ 3", "(1d6)d(2d4)", "d4d6d8", "2d", "d", "[2d1,2]kl", "return 5", "func f() {}; f()",
}

// Corpus returns source strings harvested from the repository's tests plus our own list.
func Corpus() []string {
	corpusOnce.Do(func() {
		corpus = append(corpus, ownCorpus...)
		re := regexp.MustCompile("(?s)\\.(?:Run|Parse|RunExpr)\\((`[^`]*`|\"(?:[^\"\\\\]|\\\\.)*\")")
		files, _ := filepath.Glob("/repo/*_test.go")
		for _, f := range files {
			b, err := os.ReadFile(f)
			if err != nil {
				continue
			}
			for _, m := range re.FindAllStringSubmatch(string(b), -1) {
				lit := m[1]
				if lit[0] == '`' {
					corpus = append(corpus, lit[1:len(lit)-1])
				} else if s, err := strconv.Unquote(lit); err == nil {
					corpus = append(corpus, s)
				}
			}
		}
	})
	return corpus
}

var mutTokens = []string{"(", ")", "[", "]", "{", "}", "`", "'", "\"", "\x1e", "\\", "{%", "%}", ":", ",", ";", "\n", "\r\n", " ", "\t", "..", ".", "=", "==", "!=", "&&", "||", "&", "|", "?", "??", "+", "-", "*", "/", "%", "^", "**",
	"d", "D", "a", "c", "b", "p", "f", "k", "q", "m", "kh", "kl", "dh", "dl", "min", "max", "优势", "劣势", "if ", "else ", "while ", "func ", "return ", "break", "continue", "this", "null", "true", "0", "1", "9223372036854775807", "99999999999999999999", "1.5", ".5", "^st ", "//", "// #EnableDice coc true\n", "\x00", "\xff", "\xf0\x9f\x8e\xb2", "（", "）", "【", "】", "力量"}

// Mutate applies a few byte/token-level mutations.
func Mutate(r *fw.Rand, s string) string {
	b := []byte(s)
	n := 1 + r.Intn(4)
	for i := 0; i < n; i++ {
		switch r.Intn(7) {
		case 0: // delete a span
			if len(b) > 0 {
				p := r.Intn(len(b))
				l := 1 + r.Intn(3)
				if p+l > len(b) {
					l = len(b) - p
				}
				b = append(b[:p:p], b[p+l:]...)
			}
		case 1: // insert token
			p := r.Intn(len(b) + 1)
			t := r.Pick(mutTokens)
			b = append(b[:p:p], append([]byte(t), b[p:]...)...)
		case 2: // replace byte
			if len(b) > 0 {
				b[r.Intn(len(b))] = byte(r.U64())
			}
		case 3: // truncate
			if len(b) > 0 {
				b = b[:r.Intn(len(b))]
			}
		case 4: // duplicate a span
			if len(b) > 0 {
				p := r.Intn(len(b))
				l := 1 + r.Intn(8)
				if p+l > len(b) {
					l = len(b) - p
				}
				seg := append([]byte(nil), b[p:p+l]...)
				b = append(b[:p:p], append(seg, b[p:]...)...)
			}
		case 5: // splice another corpus entry
			c := Corpus()
			o := c[r.Intn(len(c))]
			p := r.Intn(len(b) + 1)
			b = append(b[:p:p], append([]byte(o), b[p:]...)...)
		case 6: // swap two bytes
			if len(b) > 1 {
				i, j := r.Intn(len(b)), r.Intn(len(b))
				b[i], b[j] = b[j], b[i]
			}
		}
	}
	if len(b) > 4096 {
		b = b[:4096]
	}
	return string(b)
}

// RawBytes returns random bytes biased towards the grammar's alphabet.
func RawBytes(r *fw.Rand) string {
	n := r.Intn(40)
	var sb strings.Builder
	for i := 0; i < n; i++ {
		if r.P(3, 4) {
			sb.WriteString(r.Pick(mutTokens))
		} else {
			sb.WriteByte(byte(r.U64()))
		}
	}
	return sb.String()
}

// ValidProgram renders a random well-formed program of the core language.
func ValidProgram(r *fw.Rand, depth int, noisy bool) string {
	g := ref.NewGen(r)
	var prog []*ref.Node
	if r.Bool() {
		prog = g.Expr(depth)
	} else {
		prog = g.Stmts(depth-1, 4)
	}
	return ref.Print(r, noisy, prog)
}

// Tails are broken-off continuations appended to valid programs.
var Tails = []string{"{'a':1", "f(1,", "x[1", "if 1 {", "`a{", "'abc", "|| )", "? 1 :", ".", "&x =", "reason text", " 理由", "+", "+ (", "[1,", "[1..", "{%", "\"q", "\x1ez", "while 1 {", "func f(", ")", "]", "}", "= 3", "d", "kh", "a5", "::", "?? ", "&& ", "|| ", "&", "|", "*", ", 2", "; (", "\n[", "\n{'k':", " else { 1 }", "..3", "[0:", "[:", "(1", "((", "`{%", "'\\"}

var Separators = []string{"", " ", ";", "\n", "\r\n", " ; ", "\n// c\n", "  ", "\t"}

// DiceTerm returns one dice term of any family in a random spelling.
func DiceTerm(r *fw.Rand) string {
	n := func() string { return fmt.Sprint(1 + r.Intn(6)) }
	s := func() string { return fmt.Sprint([]int{1, 2, 4, 6, 10, 20, 100}[r.Intn(7)]) }
	switch r.Intn(16) {
	case 0:
		return n() + "d" + s()
	case 1:
		return "d" + s()
	case 2:
		return n() + "d" + s() + r.Pick([]string{"kh", "kl", "k", "q", "dh", "dl"}) + n()
	case 3:
		return n() + "d" + s() + r.Pick([]string{"kh", "kl", "K", "Q", "dh", "dl"})
	case 4:
		return n() + "d" + s() + "min" + n() + "max" + s()
	case 5:
		return "d" + s() + r.Pick([]string{"优势", "劣势", "優勢", "劣勢"})
	case 6:
		return r.Pick([]string{"b", "p", "B", "P"}) + r.Pick([]string{"", "1", "2", "3"})
	case 7:
		return "f"
	case 8:
		return n() + "a" + fmt.Sprint(5+r.Intn(6))
	case 9:
		return n() + "a" + fmt.Sprint(5+r.Intn(6)) + "m" + s() + "k" + n()
	case 10:
		return n() + "c" + fmt.Sprint(5+r.Intn(6))
	case 11:
		return n() + "c" + fmt.Sprint(5+r.Intn(6)) + "m" + s()
	case 12:
		return "(" + n() + "d" + s() + ")d" + s()
	case 13:
		return "d" + s() + "d" + s()
	case 14:
		return n() + "d"
	default:
		return "d"
	}
}

// DiceProgram returns an arithmetic expression over dice terms.
func DiceProgram(r *fw.Rand) string {
	k := 1 + r.Intn(4)
	var sb strings.Builder
	for i := 0; i < k; i++ {
		if i > 0 {
			sb.WriteString(r.Pick([]string{"+", " + ", "-", "*", " * ", "+\n"}))
		}
		if r.P(1, 5) {
			sb.WriteString(fmt.Sprint(r.Intn(20)))
		} else if r.P(1, 6) {
			sb.WriteString("(" + DiceTerm(r) + "+" + fmt.Sprint(r.Intn(5)) + ")")
		} else {
			sb.WriteString(DiceTerm(r))
		}
	}
	return sb.String()
}

// StmtNest renders a random nest (depth ≤ 4) of every statement form with
// break/continue/return at arbitrary positions; text-level, always syntactically valid.
func StmtNest(r *fw.Rand, depth int, inLoop, inFunc bool) string {
	expr := func() string {
		return r.Pick([]string{"1", "0", "x", "x < 3", "x + 1", "d6 > 3", "[1,2]", "'s'", "f(1)", "x ? 1 : 2", "x || y", "x && y", "`a{x}`", "{'k':x}.k", "xs[0]", "2d6kh1", "null", "x ?? 2", "-x", "(x + 2) * 3"})
	}
	simple := func() string {
		k := r.Intn(16)
		switch {
		case k < 3:
			return r.Pick([]string{"x", "y", "t1"}) + " = " + expr()
		case k == 3:
			return "xs = [1,2,3]; xs[" + r.Pick([]string{"0", "1", "-1"}) + "] = " + expr()
		case k == 4:
			return "dd = {'k':1}; dd.k = " + expr()
		case k == 5:
			return "xs = [1,2,3]; xs[0:1] = [" + expr() + "]"
		case k == 6:
			return "a = b = " + expr()
		case k == 7:
			return "&cv = " + expr() + "; cv"
		case k == 8 && inLoop:
			return r.Pick([]string{"break", "continue"})
		case k == 9 && inFunc:
			return r.Pick([]string{"return " + expr(), "return"})
		case k == 10:
			return "return " + expr()
		case k == 11:
			return "this.z = " + expr()
		case k == 12:
			return "dd = {}; dd.k = dd['j'] = []"
		case k == 13:
			return "&cv.a = " + expr()
		default:
			return expr()
		}
	}
	if depth <= 0 {
		return simple()
	}
	body := func(il, ifn bool) string {
		n := r.Intn(3)
		var parts []string
		for i := 0; i <= n; i++ {
			parts = append(parts, StmtNest(r, depth-1, il, ifn))
		}
		return strings.Join(parts, r.Pick([]string{"; ", ";\n", " ;"}))
	}
	switch r.Intn(9) {
	case 0, 1:
		s := "if " + expr() + " { " + body(inLoop, inFunc) + " }"
		if r.Bool() {
			if r.Bool() {
				s += " else if " + expr() + " { " + body(inLoop, inFunc) + " }"
			}
			s += " else { " + body(inLoop, inFunc) + " }"
		}
		return s
	case 2, 3:
		return "x = 0; while x < " + fmt.Sprint(1+r.Intn(3)) + " { x = x + 1; " + body(true, inFunc) + " }"
	case 4:
		name := r.Pick([]string{"f", "g", "h"})
		return "func " + name + "(v) { " + body(false, true) + " }; " + name + "(" + expr() + ")"
	case 5:
		return "`a{% " + body(inLoop, inFunc) + " %}b{" + expr() + "}`"
	case 6:
		return "{ }" // empty dict
	case 7:
		return simple() + "; " + StmtNest(r, depth-1, inLoop, inFunc)
	default:
		return simple()
	}
}
