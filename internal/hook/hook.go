// Package hook connects the build-tag guarded observation hooks of dicescript to the
// monitors of the harness.
package hook

import (
	"sync/atomic"

	ds "github.com/sealdice/dicescript"
	"golang.org/x/exp/rand"
)

// WorkCap is the private sentinel the work meter panics with to end a runaway evaluation.
type WorkCap struct {
	Work int64
	Cap  int64
}

// Monitor receives hook events. In sequential workloads exactly one monitor is active.
type Monitor struct {
	Ticks int64 // instruction dispatches in all VMs (root and sub-VMs)
	Rolls int64 // dice drawn
	Cap   int64 // when > 0, Ticks+Rolls beyond Cap aborts the run by panic(WorkCap)

	OnTick   func(ctx *ds.Context, pc int)
	OnRoll   func(src *rand.PCGSource, sides ds.IntType, mode int, result ds.IntType, family string)
	OnParsed func(ctx *ds.Context, src string, err error)
	OnDrop   func()
	OnEmit   func(textOffset int, codeIndex int, op string)
	OnYield  func(point string)

	Drops   int64
	Parses  int64
}

var cur atomic.Pointer[Monitor]

// Set installs m as the active monitor (nil = none) and returns the previous one.
func Set(m *Monitor) *Monitor { return cur.Swap(m) }

func Cur() *Monitor { return cur.Load() }

// YieldFn, when set, is called at every yield point regardless of the active monitor
// (used by the concurrent workloads, must be goroutine-safe).
var YieldFn atomic.Pointer[func(point string)]

func init() {
	ds.VerifH.Tick = func(ctx *ds.Context, pc int) {
		m := cur.Load()
		if m == nil {
			return
		}
		m.Ticks++
		if m.OnTick != nil {
			m.OnTick(ctx, pc)
		}
		if m.Cap > 0 && m.Ticks+m.Rolls > m.Cap {
			panic(WorkCap{m.Ticks + m.Rolls, m.Cap})
		}
	}
	ds.VerifH.Roll = func(src *rand.PCGSource, sides ds.IntType, mode int, result ds.IntType, family string) {
		m := cur.Load()
		if m == nil {
			return
		}
		m.Rolls++
		if m.OnRoll != nil {
			m.OnRoll(src, sides, mode, result, family)
		}
		if m.Cap > 0 && m.Ticks+m.Rolls > m.Cap {
			panic(WorkCap{m.Ticks + m.Rolls, m.Cap})
		}
	}
	ds.VerifH.Parsed = func(ctx *ds.Context, src string, err error) {
		m := cur.Load()
		if m == nil {
			return
		}
		m.Parses++
		if m.OnParsed != nil {
			m.OnParsed(ctx, src, err)
		}
	}
	ds.VerifH.CodeDrop = func() {
		m := cur.Load()
		if m == nil {
			return
		}
		m.Drops++
		if m.OnDrop != nil {
			m.OnDrop()
		}
	}
	ds.VerifH.Emit = func(off, idx int, op string) {
		m := cur.Load()
		if m == nil || m.OnEmit == nil {
			return
		}
		m.OnEmit(off, idx, op)
	}
	ds.VerifH.Yield = func(point string) {
		if f := YieldFn.Load(); f != nil {
			(*f)(point)
		}
		m := cur.Load()
		if m == nil || m.OnYield == nil {
			return
		}
		m.OnYield(point)
	}
}
