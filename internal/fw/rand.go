package fw

import (
	"hash/fnv"
	"math"
)

// Rand is a small deterministic splitmix64 generator; every random choice of the
// harness derives from VERIF_SEED through it.
type Rand struct{ s uint64 }

func NewRand(seed uint64) *Rand { return &Rand{s: seed} }

// Derive builds an independent stream for (seed, labels...).
func Derive(seed int64, labels ...string) *Rand {
	h := fnv.New64a()
	for _, l := range labels {
		h.Write([]byte(l))
		h.Write([]byte{0})
	}
	r := &Rand{s: uint64(seed)*0x9E3779B97F4A7C15 ^ h.Sum64()}
	r.U64()
	return r
}

func (r *Rand) U64() uint64 {
	r.s += 0x9E3779B97F4A7C15
	z := r.s
	z = (z ^ (z >> 30)) * 0xBF58476D1CE4E5B9
	z = (z ^ (z >> 27)) * 0x94D049BB133111EB
	return z ^ (z >> 31)
}

func (r *Rand) Intn(n int) int {
	if n <= 0 {
		return 0
	}
	return int(r.U64() % uint64(n))
}

func (r *Rand) Int63() int64 { return int64(r.U64() >> 1) }

func (r *Rand) Range(lo, hi int) int { // inclusive
	if hi <= lo {
		return lo
	}
	return lo + r.Intn(hi-lo+1)
}

func (r *Rand) Bool() bool { return r.U64()&1 == 1 }

// P returns true with probability num/den.
func (r *Rand) P(num, den int) bool { return r.Intn(den) < num }

func (r *Rand) Float() float64 { return float64(r.U64()>>11) / float64(1<<53) }

func (r *Rand) Pick(xs []string) string { return xs[r.Intn(len(xs))] }

func PickT[T any](r *Rand, xs []T) T { return xs[r.Intn(len(xs))] }

func (r *Rand) Bytes(n int) []byte {
	b := make([]byte, n)
	for i := range b {
		b[i] = byte(r.U64())
	}
	return b
}

// Perm returns a permutation of 0..n-1.
func (r *Rand) Perm(n int) []int {
	p := make([]int, n)
	for i := range p {
		p[i] = i
	}
	for i := n - 1; i > 0; i-- {
		j := r.Intn(i + 1)
		p[i], p[j] = p[j], p[i]
	}
	return p
}

func Hash64(parts ...string) uint64 {
	h := fnv.New64a()
	for _, p := range parts {
		h.Write([]byte(p))
		h.Write([]byte{0xff})
	}
	return h.Sum64()
}

var _ = math.MaxInt64
