package fw

import (
	"bufio"
	"crypto/sha1"
	"encoding/binary"
	"encoding/hex"
	"encoding/json"
	"fmt"
	"os"
	"os/exec"
	"path/filepath"
	"runtime"
	"sort"
	"strconv"
	"strings"
	"sync"
	"syscall"
	"time"
)

// KnownFinding is one line of known_findings.jsonl.
type KnownFinding struct {
	Property string `json:"property"`
	ID       string `json:"id"`
	Status   string `json:"status"` // open | fixed
	Commit   string `json:"commit,omitempty"`
	Match    struct {
		Key   string `json:"key,omitempty"`   // exact violation key
		Input string `json:"input,omitempty"` // exact input
	} `json:"match"`
	What    string `json:"what"`
	Witness string `json:"witness,omitempty"`
}

func LoadKnownFindings(path string) ([]KnownFinding, error) {
	f, err := os.Open(path)
	if err != nil {
		if os.IsNotExist(err) {
			return nil, nil
		}
		return nil, err
	}
	defer f.Close()
	var out []KnownFinding
	sc := bufio.NewScanner(f)
	sc.Buffer(make([]byte, 1<<20), 1<<24)
	ln := 0
	for sc.Scan() {
		ln++
		line := strings.TrimSpace(sc.Text())
		if line == "" || strings.HasPrefix(line, "#") || strings.HasPrefix(line, "fixed:") {
			continue
		}
		var k KnownFinding
		if err := json.Unmarshal([]byte(line), &k); err != nil {
			return nil, fmt.Errorf("known_findings line %d: %v", ln, err)
		}
		out = append(out, k)
	}
	return out, nil
}

// Merged is the parent's view after all shards finished.
type Merged struct {
	Prop         *Prop
	Tier         string
	Seed         int64
	Evaluations  int64
	Distinct     int
	Samples      []any
	Counters     map[string]int64
	Sets         map[string][]string
	Blobs        map[string][]json.RawMessage
	Violations   []Violation
	Inconclusive []string
	Deaths       int
	Dir          string
}

func (m *Merged) Violate(kind, key, input, detail string, extra any) {
	m.Violations = append(m.Violations, Violation{Property: m.Prop.ID, Tier: m.Tier, Seed: m.Seed, Idx: -1, Kind: kind, Key: key, Input: input, Detail: detail, Extra: extra})
}

type shardState struct {
	from     int
	attempts int
	done     bool
	hangs    int
}

func verifDir() string {
	if d := os.Getenv("VERIF_DIR"); d != "" {
		return d
	}
	return "/verif"
}

// ParentMain orchestrates one check run. Exit codes: 0 held, 1 violation, 2 inconclusive/broken.
func ParentMain(propID, tier string, seed int64, workerBin string) int {
	p := Registry[propID]
	if p == nil {
		fmt.Fprintf(os.Stderr, "unknown property %s\n", propID)
		return 2
	}
	start := time.Now()
	root := verifDir()
	dir := filepath.Join(root, "scratch", fmt.Sprintf("%s-%s-%d-%d", propID, tier, seed, os.Getpid()))
	os.RemoveAll(dir)
	if err := os.MkdirAll(dir, 0o755); err != nil {
		fmt.Fprintln(os.Stderr, err)
		return 2
	}
	defer os.RemoveAll(dir)

	nsh := runtime.NumCPU()
	if v := os.Getenv("VERIF_SHARDS"); v != "" {
		if k, err := strconv.Atoi(v); err == nil && k > 0 {
			nsh = k
		}
	}
	if p.MaxShards > 0 && nsh > p.MaxShards {
		nsh = p.MaxShards
	}
	n := p.NCases(tier)
	if n < nsh {
		nsh = n
	}
	if nsh < 1 {
		nsh = 1
	}

	m := &Merged{Prop: p, Tier: tier, Seed: seed, Counters: map[string]int64{}, Sets: map[string][]string{}, Blobs: map[string][]json.RawMessage{}, Dir: dir}
	var mu sync.Mutex
	var wg sync.WaitGroup
	broken := false
	for sh := 0; sh < nsh; sh++ {
		wg.Add(1)
		go func(sh int) {
			defer wg.Done()
			st := &shardState{}
			for !st.done {
				st.attempts++
				if st.attempts > 400 {
					mu.Lock()
					m.Inconclusive = append(m.Inconclusive, fmt.Sprintf("shard %d: too many restarts", sh))
					mu.Unlock()
					return
				}
				code, stderrPath := runChild(p, workerBin, propID, tier, seed, sh, nsh, st.from, -1, dir, st.attempts, 0)
				if code == 0 {
					st.done = true
					break
				}
				// the child died: attribute
				cur := readCur(dir, sh)
				stderrTxt := tailFile(stderrPath, 1<<16)
				if code == 97 {
					st.hangs++
					if st.hangs > 4 {
						// enough confirmed hangs in this shard: do not spend more minutes on it
						mu.Lock()
						m.Inconclusive = append(m.Inconclusive, fmt.Sprintf("shard %d: stopped after %d watchdog firings", sh, st.hangs))
						mu.Unlock()
						return
					}
					// watchdog: re-run the case alone under a CPU limit
					cpu := p.HangCPU
					if cpu == 0 {
						cpu = 20
					}
					c2, s2 := runChild(p, workerBin, propID, tier, seed, sh, nsh, 0, cur.Idx, dir, st.attempts, cpu)
					mu.Lock()
					if c2 == 97 {
						// the generous wall-clock backstop of the isolated re-run: no verdict
						m.Inconclusive = append(m.Inconclusive, fmt.Sprintf("case %d: watchdog fired and the isolated re-run did not finish within its wall-clock backstop (CPU limit not reached)", cur.Idx))
					} else if c2 == 152 || c2 == 137 || c2 == -24 {
						m.Violations = append(m.Violations, Violation{Property: propID, Tier: tier, Seed: seed, Idx: cur.Idx, Kind: "hang", Key: "hang|" + hangKey(cur.Input), Input: cur.Input, Detail: fmt.Sprintf("case exceeded the per-case watchdog and then %d s of CPU when re-run alone", cpu)})
					} else if c2 != 0 {
						k, d := classifyDeath(tailFile(s2, 1<<16))
						m.Violations = append(m.Violations, Violation{Property: propID, Tier: tier, Seed: seed, Idx: cur.Idx, Kind: "fatal", Key: k, Input: cur.Input, Detail: d})
					} else {
						m.Inconclusive = append(m.Inconclusive, fmt.Sprintf("case %d: watchdog fired but isolated re-run finished", cur.Idx))
					}
					m.Deaths++
					mu.Unlock()
					st.from = cur.Idx + 1
					continue
				}
				if cur.Idx < 0 {
					mu.Lock()
					broken = true
					m.Inconclusive = append(m.Inconclusive, fmt.Sprintf("shard %d: child failed before its first case (exit %d): %s", sh, code, lastLines(stderrTxt, 5)))
					mu.Unlock()
					return
				}
				k, d := classifyDeath(stderrTxt)
				mu.Lock()
				m.Deaths++
				m.Violations = append(m.Violations, Violation{Property: propID, Tier: tier, Seed: seed, Idx: cur.Idx, Kind: "fatal", Key: k, Input: cur.Input, Detail: fmt.Sprintf("child exit %d: %s", code, d)})
				mu.Unlock()
				st.from = cur.Idx + 1
			}
		}(sh)
	}
	wg.Wait()

	// merge
	hashes := map[uint64]struct{}{}
	for sh := 0; sh < nsh; sh++ {
		b, err := os.ReadFile(filepath.Join(dir, fmt.Sprintf("res-%d.json", sh)))
		if err != nil {
			m.Inconclusive = append(m.Inconclusive, fmt.Sprintf("shard %d: no result", sh))
			continue
		}
		var r Result
		if err := json.Unmarshal(b, &r); err != nil {
			m.Inconclusive = append(m.Inconclusive, fmt.Sprintf("shard %d: bad result", sh))
			continue
		}
		if !r.Done {
			m.Inconclusive = append(m.Inconclusive, fmt.Sprintf("shard %d: incomplete", sh))
		}
		m.Evaluations += r.Evaluations
		for k, v := range r.Counters {
			m.Counters[k] += v
		}
		if len(m.Samples) < 8 {
			for _, s := range r.Samples {
				if len(m.Samples) < 8 {
					m.Samples = append(m.Samples, s)
				}
			}
		}
		for k, l := range r.Sets {
			m.Sets[k] = append(m.Sets[k], l...)
		}
		for k, b := range r.Blobs {
			m.Blobs[k] = append(m.Blobs[k], b)
		}
		m.Inconclusive = append(m.Inconclusive, r.Inconclusive...)
		if hb, err := os.ReadFile(filepath.Join(dir, fmt.Sprintf("hash-%d.bin", sh))); err == nil {
			for i := 0; i+8 <= len(hb); i += 8 {
				hashes[binary.LittleEndian.Uint64(hb[i:])] = struct{}{}
			}
		}
		if f, err := os.Open(filepath.Join(dir, fmt.Sprintf("viol-%d.jsonl", sh))); err == nil {
			sc := bufio.NewScanner(f)
			sc.Buffer(make([]byte, 1<<20), 1<<26)
			for sc.Scan() {
				var v Violation
				if json.Unmarshal(sc.Bytes(), &v) == nil {
					m.Violations = append(m.Violations, v)
				}
			}
			f.Close()
		}
	}
	for k, l := range m.Sets {
		sort.Strings(l)
		var u []string
		for i, s := range l {
			if i == 0 || l[i-1] != s {
				u = append(u, s)
			}
		}
		m.Sets[k] = u
	}
	m.Distinct = len(hashes)

	if p.Decide != nil && !broken {
		p.Decide(m)
	}
	// floors
	if p.Floors != nil {
		for k, min := range p.Floors(tier) {
			if m.Counters[k] < min {
				m.Inconclusive = append(m.Inconclusive, fmt.Sprintf("floor not reached: %s=%d < %d", k, m.Counters[k], min))
				broken = true
			}
		}
	}

	// triage through known findings
	kfs, err := LoadKnownFindings(filepath.Join(root, "known_findings.jsonl"))
	if err != nil {
		fmt.Fprintln(os.Stderr, err)
		return 2
	}
	sort.SliceStable(m.Violations, func(i, j int) bool { return m.Violations[i].Idx < m.Violations[j].Idx })
	seenKF := map[string]int{}
	var fresh []Violation
	for _, v := range m.Violations {
		matched := false
		for _, k := range kfs {
			if k.Property != propID || k.Status != "open" {
				continue
			}
			if (k.Match.Key != "" && k.Match.Key == v.Key) || (k.Match.Input != "" && k.Match.Input == v.Input && (k.Match.Key == "" || k.Match.Key == v.Key)) {
				seenKF[k.ID]++
				matched = true
				break
			}
		}
		if !matched {
			fresh = append(fresh, v)
		}
	}
	var kfSeen []string
	for _, k := range kfs {
		if k.Property != propID {
			continue
		}
		if k.Status == "open" {
			if c := seenKF[k.ID]; c > 0 {
				fmt.Printf("KNOWN-FINDING: property=%s %s %s (re-observed %d times)\n", propID, k.ID, k.What, c)
				kfSeen = append(kfSeen, k.ID)
			} else {
				fmt.Printf("note: known finding %s of %s was not re-observed in this run (%s)\n", k.ID, propID, k.What)
			}
		}
	}

	if os.Getenv("VERIF_DUMP") != "" {
		if f, err := os.Create(filepath.Join(root, "scratch", "dump-"+propID+".jsonl")); err == nil {
			for _, v := range fresh {
				b, _ := json.Marshal(v)
				f.Write(append(b, '\n'))
			}
			f.Close()
		}
	}
	// replay files + VIOLATION lines (deduplicated by key, first witness each, capped)
	byKey := map[string]int{}
	var printed int
	replayDir := filepath.Join(root, "replays", propID)
	for _, v := range fresh {
		byKey[v.Key]++
		if byKey[v.Key] > 1 || printed >= 40 {
			continue
		}
		os.MkdirAll(replayDir, 0o755)
		b, _ := json.MarshalIndent(v, "", " ")
		sum := sha1.Sum(b)
		path := filepath.Join(replayDir, hex.EncodeToString(sum[:6])+".json")
		os.WriteFile(path, b, 0o644)
		fmt.Printf("VIOLATION property=%s replay=%s\n", propID, path)
		fmt.Printf("  kind=%s key=%s idx=%d\n  input=%s\n  detail=%s\n", v.Kind, v.Key, v.Idx, trunc(strconv.Quote(v.Input), 400), trunc(strings.ReplaceAll(v.Detail, "\n", "\\n"), 600))
		printed++
	}

	// evidence
	level := p.Level
	if level == "" {
		level = "exploration"
	}
	cov := map[string]any{
		"evaluations":         m.Evaluations,
		"distinct_nontrivial": m.Distinct,
		"rule":                p.Rule,
		"samples":             m.Samples,
		"counters":            m.Counters,
		"sets":                m.Sets,
		"shards":              nsh,
		"planned_cases":       n,
		"process_deaths":      m.Deaths,
		"known_findings_seen": kfSeen,
		"distinct_violation_keys": len(byKey),
		"inconclusive":        m.Inconclusive,
	}
	if len(m.Samples) == 0 {
		cov["samples"] = []any{"(no sample recorded)"}
	}
	ev := map[string]any{
		"property_id": propID,
		"tier":        tier,
		"seed":        seed,
		"level":       level,
		"coverage":    cov,
		"assumptions": append([]string{"the worker is built from /repo's working tree with -tags verif; hooks only observe"}, p.Assumptions...),
		"wall_s":      time.Since(start).Seconds(),
		"violations":  len(fresh),
	}
	eb, _ := json.MarshalIndent(ev, "", " ")
	os.MkdirAll(filepath.Join(root, "evidence"), 0o755)
	os.WriteFile(filepath.Join(root, "evidence", propID+".json"), eb, 0o644)

	fmt.Printf("%s %s seed=%d: cases=%d evaluations=%d distinct_nontrivial=%d violations(new)=%d known=%d deaths=%d inconclusive=%d wall=%.1fs\n",
		propID, tier, seed, n, m.Evaluations, m.Distinct, len(fresh), len(kfSeen), m.Deaths, len(m.Inconclusive), time.Since(start).Seconds())
	keys := make([]string, 0, len(m.Counters))
	for k := range m.Counters {
		keys = append(keys, k)
	}
	sort.Strings(keys)
	var sb strings.Builder
	for _, k := range keys {
		fmt.Fprintf(&sb, " %s=%d", k, m.Counters[k])
	}
	fmt.Printf("  counters:%s\n", sb.String())
	for i, s := range m.Inconclusive {
		if i < 10 {
			fmt.Printf("  inconclusive: %s\n", s)
		}
	}
	if len(fresh) > 0 {
		return 1
	}
	if broken {
		return 2
	}
	if m.Evaluations == 0 || m.Distinct < 2 {
		fmt.Println("  vacuous run: nothing observed")
		return 2
	}
	return 0
}

func trunc(s string, n int) string {
	if len(s) > n {
		return s[:n] + "…"
	}
	return s
}

func hangKey(input string) string {
	sum := sha1.Sum([]byte(input))
	return hex.EncodeToString(sum[:6])
}

type curInfo struct {
	Idx   int    `json:"idx"`
	Input string `json:"input"`
}

func readCur(dir string, sh int) curInfo {
	c := curInfo{Idx: -1}
	b, err := os.ReadFile(filepath.Join(dir, fmt.Sprintf("cur-%d.json", sh)))
	if err != nil {
		return c
	}
	if json.Unmarshal(b, &c) != nil {
		return curInfo{Idx: -1}
	}
	return c
}

func tailFile(path string, n int) string {
	b, err := os.ReadFile(path)
	if err != nil {
		return ""
	}
	// keep head (where the fatal error line is) and tail
	if len(b) > 2*n {
		return string(b[:n]) + "\n...\n" + string(b[len(b)-n:])
	}
	return string(b)
}

func lastLines(s string, k int) string {
	l := strings.Split(strings.TrimSpace(s), "\n")
	if len(l) > k {
		l = l[len(l)-k:]
	}
	return strings.Join(l, " | ")
}

// classifyDeath extracts a stable key from a dead child's stderr.
func classifyDeath(stderr string) (key, detail string) {
	lines := strings.Split(stderr, "\n")
	kind := "death"
	msg := ""
	for _, l := range lines {
		if strings.HasPrefix(l, "fatal error: ") {
			kind = "fatal"
			msg = strings.TrimPrefix(l, "fatal error: ")
			break
		}
		if strings.HasPrefix(l, "panic: ") {
			kind = "panic-escaped"
			msg = strings.TrimPrefix(l, "panic: ")
			break
		}
		if strings.HasPrefix(l, "runtime: goroutine stack exceeds") {
			kind = "fatal"
			msg = "stack overflow"
			break
		}
		if strings.Contains(l, "WARNING: DATA RACE") {
			kind = "race"
			msg = "data race (halt_on_error)"
			break
		}
	}
	frame := FirstFrame(stderr)
	if kind == "death" {
		msg = lastLines(stderr, 2)
	}
	return kind + "|" + frame + "|" + MaskNumbers(msg), trunc(kind+": "+msg+" at "+frame, 500)
}

func runChild(p *Prop, bin, propID, tier string, seed int64, sh, nsh, from, only int, dir string, attempt int, cpuLimit int) (int, string) {
	args := []string{"worker", "-prop", propID, "-tier", tier, "-seed", fmt.Sprint(seed), "-shard", fmt.Sprint(sh), "-nshards", fmt.Sprint(nsh), "-from", fmt.Sprint(from), "-only", fmt.Sprint(only), "-dir", dir}
	name := bin
	var pre []string
	if p.AsLimit && !p.Race {
		pre = append(pre, "--as=4294967296")
	}
	if cpuLimit > 0 {
		pre = append(pre, fmt.Sprintf("--cpu=%d", cpuLimit))
	}
	if len(pre) > 0 {
		args = append(append(pre, bin), args...)
		name = "prlimit"
	}
	cmd := exec.Command(name, args...)
	suffix := ""
	if only >= 0 {
		suffix = "-only"
	}
	stderrPath := filepath.Join(dir, fmt.Sprintf("stderr-%d-%d%s.txt", sh, attempt, suffix))
	f, err := os.Create(stderrPath)
	if err != nil {
		return 2, stderrPath
	}
	defer f.Close()
	cmd.Stdout = f
	cmd.Stderr = f
	cmd.Env = append(os.Environ(), "GOTRACEBACK=single", "GOMAXPROCS=2")
	if p.Race {
		cmd.Env = append(cmd.Env, "GORACE=halt_on_error=0 log_path="+filepath.Join(dir, fmt.Sprintf("race-%d", sh)), "GOMAXPROCS=4")
	}
	if err := cmd.Run(); err != nil {
		if ee, ok := err.(*exec.ExitError); ok {
			if ws, ok := ee.Sys().(syscall.WaitStatus); ok && ws.Signaled() {
				return 128 + int(ws.Signal()), stderrPath
			}
			return ee.ExitCode(), stderrPath
		}
		return 2, stderrPath
	}
	return 0, stderrPath
}
