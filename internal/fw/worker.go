package fw

import (
	"encoding/binary"
	"encoding/json"
	"fmt"
	"os"
	"path/filepath"
	"runtime/debug"
	"sort"
	"strings"
	"sync"
	"sync/atomic"
	"time"
)

// Violation is one refuting observation.
type Violation struct {
	Property string `json:"property"`
	Tier     string `json:"tier"`
	Seed     int64  `json:"seed"`
	Idx      int    `json:"idx"`
	Kind     string `json:"kind"`             // panic, fatal, hang, mismatch, ...
	Key      string `json:"key"`              // stable identification used for known-finding matching
	Input    string `json:"input"`            // primary input (source text, history, document)
	Detail   string `json:"detail,omitempty"` // what was observed
	Extra    any    `json:"extra,omitempty"`
}

// Result is what one worker (shard) reports.
type Result struct {
	Shard        int              `json:"shard"`
	Evaluations  int64            `json:"evaluations"`
	NextIdx      int              `json:"next_idx"`
	Done         bool             `json:"done"`
	Samples      []any            `json:"samples,omitempty"`
	Counters     map[string]int64 `json:"counters,omitempty"`
	Inconclusive []string         `json:"inconclusive,omitempty"`
	Sets         map[string][]string `json:"sets,omitempty"` // named small sets (opcodes seen, ...)
	Blobs        map[string]json.RawMessage `json:"blobs,omitempty"` // property-specific data for the parent
}

// Prop describes one property check.
type Prop struct {
	ID      string
	Race    bool // worker must be the -race build
	AsLimit bool // run children under an address-space limit
	// NCases returns the number of cases of the tier; the list is a pure function of
	// (tier, seed).
	NCases func(tier string) int
	// Run executes case idx. All randomness must come from r.
	Run func(w *W, idx int, r *Rand)
	// Setup runs once per worker before the first case.
	Setup func(w *W)
	// Finish runs once per worker after the last case of the shard (only on a complete shard).
	Finish func(w *W)
	// Decide runs in the parent after all shards finished; it may add violations or
	// inconclusive notes based on merged blobs/counters.
	Decide func(p *Merged)
	// Floors: minimal counter values for the run not to be vacuous (per tier).
	Floors func(tier string) map[string]int64
	// Rule is the evidence "rule" text.
	Rule string
	// Level is the evidence level (default exploration).
	Level string
	// HangWall is the per-case wall-clock watchdog in seconds (default 30). Its firing is
	// never a verdict; the case is re-run alone under a CPU limit.
	HangWall int
	// HangCPU is the CPU-time limit in seconds of the isolated re-run (default 20). Cases that run
	// many goroutines burn CPU seconds on all cores at once and need more.
	HangCPU int
	// MaxShards limits parallelism (0 = all cores).
	MaxShards int
	// Assumptions listed in the evidence file.
	Assumptions []string
}

var Registry = map[string]*Prop{}

func Register(p *Prop) { Registry[p.ID] = p }

// W is the worker-side context handed to Run.
type W struct {
	Prop    *Prop
	Tier    string
	Seed    int64
	Shard   int
	NShards int
	Dir     string
	Only    int

	res       Result
	hashes    map[uint64]struct{}
	mu        sync.Mutex
	curFile   *os.File
	violFile  *os.File
	curIdx    int64
	curStart  int64 // unix nano of Begin
	curInput  string
	setsM     map[string]map[string]struct{}
	nSamples  int
	sampleCap int
	BlobOut   map[string]any
	nViol     int
}

// Begin records the case about to be executed so that a dying process can be attributed.
func (w *W) Begin(idx int, input string) {
	w.curInput = input
	atomic.StoreInt64(&w.curIdx, int64(idx))
	atomic.StoreInt64(&w.curStart, time.Now().UnixNano())
	if w.curFile != nil {
		if len(input) > 1<<16 {
			input = input[:1<<16]
		}
		b, _ := json.Marshal(map[string]any{"idx": idx, "input": input})
		w.curFile.WriteAt(b, 0)
		w.curFile.Truncate(int64(len(b)))
	}
}

// Step refreshes the watchdog inside a long case and updates the attributed input.
func (w *W) Step(idx int, input string) { w.Begin(idx, input) }

func (w *W) Eval(n int64) {
	w.mu.Lock()
	w.res.Evaluations += n
	w.mu.Unlock()
}

// Note counts a distinct non-trivial case by hash.
func (w *W) Note(h uint64) {
	w.mu.Lock()
	w.hashes[h] = struct{}{}
	w.mu.Unlock()
}

func (w *W) Count(name string, n int64) {
	w.mu.Lock()
	w.res.Counters[name] += n
	w.mu.Unlock()
}

func (w *W) SetAdd(set, item string) {
	w.mu.Lock()
	m := w.setsM[set]
	if m == nil {
		m = map[string]struct{}{}
		w.setsM[set] = m
	}
	if len(m) < 4096 {
		m[item] = struct{}{}
	}
	w.mu.Unlock()
}

func (w *W) Sample(x any) {
	w.mu.Lock()
	if w.nSamples < w.sampleCap {
		w.res.Samples = append(w.res.Samples, x)
		w.nSamples++
	}
	w.mu.Unlock()
}

func (w *W) Inconclusive(why string) {
	w.mu.Lock()
	if len(w.res.Inconclusive) < 50 {
		w.res.Inconclusive = append(w.res.Inconclusive, why)
	}
	w.res.Counters["inconclusive"]++
	w.mu.Unlock()
}

// Violate records a refuting observation; it is appended to disk at once.
func (w *W) Violate(idx int, kind, key, input, detail string, extra any) {
	v := Violation{Property: w.Prop.ID, Tier: w.Tier, Seed: w.Seed, Idx: idx, Kind: kind, Key: key, Input: input, Detail: detail, Extra: extra}
	w.mu.Lock()
	defer w.mu.Unlock()
	w.nViol++
	w.res.Counters["violations_raw"]++
	if w.nViol > 2000 {
		return // enough witnesses; the count continues
	}
	if len(v.Input) > 1<<16 {
		v.Input = v.Input[:1<<16]
	}
	if len(v.Detail) > 1<<14 {
		v.Detail = v.Detail[:1<<14]
	}
	b, _ := json.Marshal(v)
	if w.violFile != nil {
		w.violFile.Write(append(b, '\n'))
	}
}

func (w *W) checkpoint(next int, done bool) {
	w.mu.Lock()
	defer w.mu.Unlock()
	w.res.NextIdx = next
	w.res.Done = done
	w.res.Sets = map[string][]string{}
	for k, m := range w.setsM {
		var l []string
		for s := range m {
			l = append(l, s)
		}
		sort.Strings(l)
		w.res.Sets[k] = l
	}
	if done && w.BlobOut != nil {
		w.res.Blobs = map[string]json.RawMessage{}
		for k, v := range w.BlobOut {
			b, _ := json.Marshal(v)
			w.res.Blobs[k] = b
		}
	}
	b, _ := json.Marshal(&w.res)
	tmp := filepath.Join(w.Dir, fmt.Sprintf("res-%d.json.tmp", w.Shard))
	os.WriteFile(tmp, b, 0o644)
	os.Rename(tmp, filepath.Join(w.Dir, fmt.Sprintf("res-%d.json", w.Shard)))
	hb := make([]byte, 8*len(w.hashes))
	i := 0
	for h := range w.hashes {
		binary.LittleEndian.PutUint64(hb[i*8:], h)
		i++
	}
	tmp = filepath.Join(w.Dir, fmt.Sprintf("hash-%d.bin.tmp", w.Shard))
	os.WriteFile(tmp, hb, 0o644)
	os.Rename(tmp, filepath.Join(w.Dir, fmt.Sprintf("hash-%d.bin", w.Shard)))
}

// PanicKey builds a stable key from a recovered panic: first dicescript frame + masked message.
func PanicKey(val any, stack []byte) string {
	msg := fmt.Sprint(val)
	return "panic|" + FirstFrame(string(stack)) + "|" + MaskNumbers(msg)
}

// MaskNumbers replaces digit runs by N so that messages are comparable.
func MaskNumbers(s string) string {
	var sb strings.Builder
	in := false
	for _, c := range s {
		if c >= '0' && c <= '9' {
			if !in {
				sb.WriteByte('N')
				in = true
			}
			continue
		}
		in = false
		sb.WriteRune(c)
	}
	out := sb.String()
	if len(out) > 160 {
		out = out[:160]
	}
	return out
}

// FirstFrame returns the function name of the first dicescript frame of a stack dump
// that is not a hook or a Must* helper wrapper line itself.
func FirstFrame(stack string) string {
	lines := strings.Split(stack, "\n")
	for _, l := range lines {
		l = strings.TrimSpace(l)
		if !strings.HasPrefix(l, "github.com/sealdice/dicescript.") {
			continue
		}
		fn := strings.TrimPrefix(l, "github.com/sealdice/dicescript.")
		if i := strings.LastIndex(fn, "("); i > 0 {
			fn = fn[:i]
		}
		if strings.Contains(fn, "verif") || strings.Contains(fn, "Verif") {
			continue
		}
		// strip closure numbering differences
		fn = strings.TrimSuffix(fn, "...")
		return fn
	}
	return "?"
}

// Guard runs f and converts a panic into (value, stack).
func Guard(f func()) (pv any, stack []byte) {
	defer func() {
		if r := recover(); r != nil {
			pv = r
			stack = debug.Stack()
		}
	}()
	f()
	return nil, nil
}

// WorkerMain runs the cases of one shard.
func WorkerMain(propID, tier string, seed int64, shard, nshards, from, only int, dir string) int {
	p := Registry[propID]
	if p == nil {
		fmt.Fprintf(os.Stderr, "unknown property %s\n", propID)
		return 2
	}
	w := &W{Prop: p, Tier: tier, Seed: seed, Shard: shard, NShards: nshards, Dir: dir, Only: only,
		hashes: map[uint64]struct{}{}, setsM: map[string]map[string]struct{}{}, sampleCap: 6}
	w.res.Shard = shard
	w.res.Counters = map[string]int64{}
	// resume from checkpoint if present (restart after a death)
	if from > 0 {
		if b, err := os.ReadFile(filepath.Join(dir, fmt.Sprintf("res-%d.json", shard))); err == nil {
			var old Result
			if json.Unmarshal(b, &old) == nil {
				w.res = old
				w.res.Done = false
				if w.res.Counters == nil {
					w.res.Counters = map[string]int64{}
				}
				for k, l := range old.Sets {
					for _, s := range l {
						w.SetAdd(k, s)
					}
				}
				w.nSamples = len(old.Samples)
			}
		}
		if hb, err := os.ReadFile(filepath.Join(dir, fmt.Sprintf("hash-%d.bin", shard))); err == nil {
			for i := 0; i+8 <= len(hb); i += 8 {
				w.hashes[binary.LittleEndian.Uint64(hb[i:])] = struct{}{}
			}
		}
	}
	var err error
	w.curFile, err = os.OpenFile(filepath.Join(dir, fmt.Sprintf("cur-%d.json", shard)), os.O_CREATE|os.O_RDWR|os.O_TRUNC, 0o644)
	if err != nil {
		fmt.Fprintln(os.Stderr, err)
		return 2
	}
	w.violFile, err = os.OpenFile(filepath.Join(dir, fmt.Sprintf("viol-%d.jsonl", shard)), os.O_CREATE|os.O_WRONLY|os.O_APPEND, 0o644)
	if err != nil {
		fmt.Fprintln(os.Stderr, err)
		return 2
	}
	hang := p.HangWall
	if hang == 0 {
		hang = 30
	}
	if only >= 0 {
		// isolated re-run of one case: the verdict is the CPU-time limit set by the parent, never
		// the wall clock (a loaded machine must not turn a slow case into a hang); the wall-clock
		// watchdog stays only as a very generous backstop whose firing is inconclusive
		hang *= 20
	}
	atomic.StoreInt64(&w.curStart, time.Now().UnixNano())
	go func() {
		for {
			time.Sleep(500 * time.Millisecond)
			st := atomic.LoadInt64(&w.curStart)
			if st != 0 && time.Since(time.Unix(0, st)) > time.Duration(hang)*time.Second {
				os.WriteFile(filepath.Join(dir, fmt.Sprintf("hang-%d", shard)), []byte(fmt.Sprint(atomic.LoadInt64(&w.curIdx))), 0o644)
				os.Exit(97)
			}
		}
	}()

	n := p.NCases(tier)
	if p.Setup != nil {
		p.Setup(w)
	}
	if only >= 0 {
		r := Derive(seed, propID, tier, fmt.Sprint(only))
		w.Begin(only, "")
		p.Run(w, only, r)
		w.checkpoint(only+1, false)
		return 0
	}
	cnt := 0
	for idx := shard; idx < n; idx += nshards {
		if idx < from {
			continue
		}
		r := Derive(seed, propID, tier, fmt.Sprint(idx))
		w.Begin(idx, "")
		p.Run(w, idx, r)
		cnt++
		if cnt%64 == 0 {
			w.checkpoint(idx+nshards, false)
		}
	}
	atomic.StoreInt64(&w.curStart, time.Now().UnixNano())
	w.Begin(n, "finish")
	if p.Finish != nil {
		p.Finish(w)
	}
	w.checkpoint(n, true)
	return 0
}
