module verif

go 1.21

require (
	github.com/anishathalye/porcupine v1.3.0
	github.com/sealdice/dicescript v0.0.0
	golang.org/x/exp v0.0.0-20240604190554-fc45aab8b7f8
)

replace github.com/sealdice/dicescript => /repo
