#!/bin/bash
# tools/confirm_mutant.sh <mutant-dir> <worktree> : confirm independently that the change builds, passes the
# suite, and that its demonstration fails with the change and passes without it. Prints a summary line.
d=$(readlink -f "$1"); wt=$2
export GOFLAGS=-mod=mod GOPROXY=off GOSUMDB=off GOTOOLCHAIN=local
patch=$d/patch.diff; [ -f $d/patch.refreshed.diff ] && patch=$d/patch.refreshed.diff
cd $wt || exit 2
git checkout -q --detach ${BASE:-$(git -C /repo rev-parse HEAD)} 2>/dev/null; git checkout -q -- . ; git clean -fdq
cp $d/demo_test.go ./zz_demo_test.go
name=$(grep -o 'func Test[A-Za-z0-9_]*' zz_demo_test.go | sed 's/func //' | paste -sd'|')
name="($name)"
RACE=""; grep -qi "race" $d/notes.md 2>/dev/null && grep -q "\-race" $d/notes.md && RACE="-race"
timeout 300 go test $RACE -vet=off -count=1 -run "^$name\$" . > /tmp/confirm-clean.log 2>&1; clean=$?
if ! git apply $patch; then echo "$d: PATCH DOES NOT APPLY"; rm -f zz_demo_test.go; exit 1; fi
go build ./... > /tmp/confirm-build.log 2>&1; build=$?
timeout 300 go test $RACE -vet=off -count=1 -run "^$name\$" . > /tmp/confirm-mut.log 2>&1; mut=$?
rm -f zz_demo_test.go
timeout 600 go test -vet=off -count=1 ./... > /tmp/confirm-suite.log 2>&1; suite=$?
git checkout -q -- . ; git clean -fdq
echo "$d: demo=$name race=$RACE clean_rc=$clean build_rc=$build mutated_demo_rc=$mut suite_rc=$suite => $([ $clean = 0 ] && [ $build = 0 ] && [ $mut != 0 ] && [ $suite = 0 ] && echo CONFIRMED || echo NOT-CONFIRMED)"
