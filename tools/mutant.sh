#!/bin/bash
# tools/mutant.sh <patch.diff> <ID> [ID...] : apply a seeded change to /repo, run the suite and the
# given checks (quick), undo the change. Prints one line per check.
patch=$(readlink -f "$1"); shift
export GOFLAGS=-mod=mod GOPROXY=off GOSUMDB=off GOTOOLCHAIN=local
cd /repo || exit 2
if [ -n "$(git status --porcelain)" ]; then echo "/repo not clean"; exit 2; fi
if ! git apply "$patch"; then echo "patch does not apply"; exit 2; fi
trap 'cd /repo && git apply -R "$patch" 2>/dev/null; git checkout -- . ; git clean -fdq' EXIT
if ! go build ./... ; then echo "BUILD FAILS"; exit 2; fi
if ! go test -vet=off -count=1 ./... >/tmp/mutant-suite.log 2>&1; then echo "SUITE FAILS with the change"; tail -5 /tmp/mutant-suite.log; exit 2; fi
echo "suite passes with the change"
cd /verif
for id in "$@"; do
  s=$(date +%s)
  ./check $id ${TIER:-quick} > scratch/mutant-$id.out 2>&1; rc=$?
  e=$(date +%s)
  echo "$id rc=$rc wall=$((e-s))s $(grep -a -c '^VIOLATION' scratch/mutant-$id.out) violation-lines; first: $(grep -a -m1 -A1 '^VIOLATION' scratch/mutant-$id.out | tail -1 | cut -c1-160)"
done
