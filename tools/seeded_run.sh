#!/bin/bash
# re-runs every seeded change against the checks listed in its meta.json (detected_by) and prints a table
cd /verif
for d in seeded/*/; do
  id=$(basename $d)
  checks=$(python3 -c "import json;print(' '.join(json.load(open('$d/meta.json'))['detected_by']))")
  echo "== $id ($checks)"
  tools/mutant.sh $d/patch.diff $checks 2>&1 | grep -a "rc=\|SUITE\|apply\|BUILD"
done
