#!/bin/bash
# tools/runall.sh <tier> <seed> [ids...] : run checks, print id exit wall
cd /verif
tier=${1:-quick}; seed=${2:-1}; shift 2
ids="$@"; [ -z "$ids" ] && ids="C01 C02 C03 C04 C05 C06 C07 C08 C09 C10 C11 C12 C13 C14 C15 C16 C17 C18 C19"
for id in $ids; do
  s=$(date +%s)
  VERIF_SEED=$seed ./check $id $tier > scratch/run-$id-$tier-$seed.out 2>&1
  rc=$?
  e=$(date +%s)
  echo "$id rc=$rc wall=$((e-s))s $(grep -c '^VIOLATION' scratch/run-$id-$tier-$seed.out) violations $(grep -c '^KNOWN-FINDING' scratch/run-$id-$tier-$seed.out) known"
done
