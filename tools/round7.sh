#!/bin/bash
# tools/round7.sh <Pxx> [checks…] : take the deliverables of the round-7 agent for property Pxx from its worktree
# /tmp/mut/r7-Pxx/_out, store them as seeded/Pxx-m10, confirm (build, suite, demo fails with / passes without) and
# run the named checks (default: the property's own) against the worktree with a private harness copy.
P=$1; shift; checks="$@"; [ -z "$checks" ] && checks=$P
export GOFLAGS=-mod=mod GOPROXY=off GOSUMDB=off GOTOOLCHAIN=local
wt=/tmp/mut/r7-$P; d=/verif/seeded/$P-m10
mkdir -p $d
[ -f $wt/_out/patch.diff ] && cp $wt/_out/patch.diff $d/patch.diff
[ -f $wt/_out/demo_test.go ] && cp $wt/_out/demo_test.go $d/demo_test.go.txt
[ -f $wt/_out/notes.md ] && cp $wt/_out/notes.md $d/notes.md
cd $wt || exit 2
git checkout -q -- . ; git clean -fdq -e _out
cp $d/demo_test.go.txt zz_demo_test.go
name="($(grep -o 'func Test[A-Za-z0-9_]*' zz_demo_test.go | sed 's/func //' | paste -sd'|'))"
RACE=""; grep -q 'needs -race' zz_demo_test.go && RACE="-race"
timeout 300 go test $RACE -vet=off -count=1 -run "^$name\$" . > $d/.clean.log 2>&1; clean=$?
git apply $d/patch.diff || { echo "$P: PATCH DOES NOT APPLY"; exit 1; }
go build ./... > $d/.build.log 2>&1; build=$?
timeout 300 go test $RACE -vet=off -count=1 -run "^$name\$" . > $d/.mut.log 2>&1; mut=$?
rm -f zz_demo_test.go
timeout 600 go test -vet=off -count=1 ./... > $d/.suite.log 2>&1; suite=$?
git checkout -q -- . ; git clean -fdq -e _out
echo "$P-m10: demo=$name clean_rc=$clean build_rc=$build mutated_demo_rc=$mut suite_rc=$suite => $([ $clean = 0 ] && [ $build = 0 ] && [ $mut != 0 ] && [ $suite = 0 ] && echo CONFIRMED || echo NOT-CONFIRMED)"
rm -f $d/.clean.log $d/.build.log $d/.suite.log; mv $d/.mut.log $d/demo-fails.log
cd /verif
WT=$wt HARNESS=/tmp/vh-$P tools/mutant_wt.sh $d/patch.diff $checks
