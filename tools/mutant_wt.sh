#!/bin/bash
# tools/mutant_wt.sh <patch> <checks…> : like mutant.sh but against a scratch worktree + scratch harness
# (WT=/tmp/mut/mwt, HARNESS=/tmp/verif3 whose go.mod replace points at WT), so /repo stays untouched.
WT=${WT:-/tmp/mut/mwt}; H=${HARNESS:-/tmp/verif3}
export GOFLAGS=-mod=mod GOPROXY=off GOSUMDB=off GOTOOLCHAIN=local VERIF_DIR=$H
patch=$(readlink -f "$1"); shift
# create the scratch worktree and the scratch harness copy on first use
if [ ! -d $WT ]; then git -C /repo worktree add --detach $WT $(git -C /repo rev-parse HEAD) >/dev/null 2>&1; fi
if [ ! -f $H/go.mod ]; then mkdir -p $H/evidence; rsync -a --exclude bin --exclude scratch --exclude replays --exclude .git --exclude evidence /verif/ $H/; sed -i "s|=> /repo|=> $WT|" $H/go.mod; fi
git -C $WT checkout -q -- . ; git -C $WT clean -fdq
git -C $WT apply $patch || { echo "PATCH DOES NOT APPLY"; exit 2; }
rsync -a --exclude bin --exclude scratch --exclude replays --exclude .git --exclude evidence --exclude go.mod /verif/ $H/
for c in "$@"; do
  t0=$(date +%s)
  out=$(cd $H && ./check $c ${TIER:-quick} 2>&1); rc=$?
  echo "$c rc=$rc wall=$(( $(date +%s)-t0 ))s $(echo "$out" | grep -ac '^VIOLATION') violation-lines; first: $(echo "$out" | grep -a -A1 '^VIOLATION' | sed -n 2p | cut -c1-200)"
done
git -C $WT checkout -q -- . ; git -C $WT clean -fdq
