#!/usr/bin/env python3
# Regenerates /verif/MANIFEST.json from the table below.
import json, subprocess, os
ROOT='/verif'
BUILT = json.load(open(ROOT+'/tools/built.json'))
T = {
 'C01': ("crash/exhaustion/hang monitor: recover() at the API boundary, child-process death attribution, address-space limit, work meter from tick/roll hooks, canary after every case; generated hostile inputs × configurations × API histories",
         "held on the executions generated; inputs the generators do not reach are not covered; 32-bit/GopherJS builds not executed",
         "runtime monitoring: panic/fatal/hang observation over generated hostile workloads in child processes"),
 'C02': ("differential oracle: an independent AST-level reference interpreter judges value/error/variables of generated programs (3 spellings each, sequences per VM) against the real VM",
         "the reference interpreter (internal/ref) is the trusted base; it declines where the documentation is silent",
         "runtime monitoring: reference-model oracle on every generated execution"),
 'C03': ("metamorphic twin: Run(I) vs Run(Matched) on an identically prepared VM; Matched+RestInput==I; emission tap",
         "compares the implementation with itself; says nothing about inputs rejected outright",
         "runtime monitoring: metamorphic twin oracle over valid-prefix+tail inputs"),
 'C04': ("roll tap (every die drawn) + parsers of each detail format + independently written game rules, over a parameter grid through Roll* functions and VM syntax; illegal tuples must be rejected",
         "rules written from GUIDE.md; detail formats as produced today",
         "runtime monitoring: conservation/legality monitor on hooked roll events"),
 'C05': ("statistical monitor on Roll(): exact-cell chi-square for small n, quantile buckets for large n, serial-pair tests, draw-consumption rate; thresholds with false-alarm probability <1e-9 and a replication stage",
         "resolves bias down to ~1e-3 relative (quick); 2^-40-sized bias is below sampling resolution and not claimed",
         "runtime monitoring: statistical oracle over sampled draws"),
 'C06': ("replay comparison of seeded programs with perturbers on other goroutines/VMs/global generators, resumption from GetCurSeed, source-provenance tap, global generator snapshot",
         "randomness that bypasses Roll is caught by replay inequality only",
         "runtime monitoring: replay/provenance oracle with interference workloads"),
 'C07': ("work meter (instruction dispatches + dice) from hooks vs OpCountLimit, NumOpCount monotonicity asserted in the tick hook, code-drop hook for silent truncation, capacity ladders judged against reference values",
         "'work' is what the meter counts; allocation volume only via the address-space limit",
         "runtime monitoring: metered-work assertions on hooked state"),
 'C08': ("invariant at the parsed-program hook: every compiled program (and nested bodies) is walked as a CFG with an abstract stack/blocks/dice-state interpretation over all paths",
         "per-opcode stack effects written from the VM; only programs produced by generated inputs are seen",
         "runtime monitoring: structural invariant checked at a hook on every compiled program"),
 'C09': ("snapshot/restore twin: Attrs.ToJSON → restore into a fresh VM after every statement prefix; structural comparison and follow-up programs on original vs restored VM",
         "states with cross-variable aliasing are compared structurally only",
         "runtime monitoring: round-trip and behavioural twin oracle"),
 'C10': ("fault-injected JSON documents decoded and then driven through a battery of ~45 operations/scripts under recover() in a limited child",
         "documents from a grammar of the wire format with injected faults plus byte mutations",
         "runtime monitoring: crash oracle over hostile documents"),
 'C11': ("race detector over N goroutines with independent VMs + differential comparison with isolated baselines + language rendezvous script at yield hooks",
         "the race detector sees only races in the schedules produced",
         "runtime monitoring: go race detector + differential isolation oracle"),
 'C12': ("sequential: exhaustive enumeration of all operation sequences up to length 5 (quick) / 6 (thorough) over 2 keys × 2 values against a Go map, plus random longer ones and script-level dict observations; concurrent: recorded histories checked with porcupine (per key, and whole-map with Clear), weak contract for concurrent Range/Length, under the race detector with yield-point steering",
         "porcupine v1.3.0 and the Go race detector are trusted; concurrent Range/Length only need the weak sync.Map contract",
         "runtime monitoring: model-based history checking (porcupine linearizability) + race detector"),
 'C13': ("round-trip oracle for literals in 4 delimiters with documented escapes; templates with holes judged by concatenation of reference values; sentinels around templates; nesting ladders",
         "encoders written from the documented escape table",
         "runtime monitoring: round-trip oracle over generated texts"),
 'C14': ("detail-text monitor: strip annotations and re-evaluate with an own arithmetic evaluator, recompute annotation totals from listed dice, idempotence and no side effects of GetDetailText",
         "shape rules ([略] above 400 chars, elision) accepted as documented in rollvm.go",
         "runtime monitoring: explanation-consistency oracle over seeded executions"),
 'C15': ("bracket oracle: min-mode ≤ random ≤ max-mode for every term × seeds; attained bounds from the analytic formula; roll tap must stay silent in min/max mode",
         "exploding dice (WoD/DC) excluded from bracketing as the property says",
         "runtime monitoring: bracket/attainment oracle with roll tap"),
 'C16': ("opcode-family monitor at the parsed-program hook over exhaustive short spellings × 16 family settings and generated programs; configuration compared before/after every run; macro isolation in sequences",
         "attribution by compilation unit; macro spelling as in the grammar",
         "runtime monitoring: invariant at the parsed-program hook + configuration snapshots"),
 'C17': ("twin comparison plain VM vs VM with never-matching custom syntaxes / identity hooks; handler invocation log oracle for matching syntaxes",
         "custom operands inside look-ahead-guarded constructs are listed findings",
         "runtime monitoring: twin oracle + exactly-once callback log"),
 'C18': ("callback-log oracle for generated ^st lists: expected edit sequence (type, name, value, operator) vs recorded CallbackSt calls",
         "ambiguous spellings (name/value splits the grammar reads differently) are not generated",
         "runtime monitoring: exactly-once/in-order log checker"),
 'C19': ("error-message parser: offset/line/column/quoted line/caret/language checked for every rejected input × 3 languages; concurrent VMs with different languages under the race detector",
         "only errors produced by the friendly formatter are in scope",
         "runtime monitoring: message-structure oracle + race detector"),
}
props=[json.loads(l) for l in open(ROOT+'/properties.jsonl')]
hooks = subprocess.run(['git','-C','/repo','log','--format=%h %s'],capture_output=True,text=True).stdout.splitlines()
hook_commits=[l.split()[0] for l in hooks if l.split(' ',1)[1].startswith('verif:')]
m={
 "version":1,
 "setup_cmd":"cd /verif && export GOFLAGS=-mod=mod GOPROXY=off GOSUMDB=off GOTOOLCHAIN=local && mkdir -p bin scratch && go build -tags verif -o bin/dsverif ./cmd/dsverif && go build -race -tags verif -o bin/dsverif-race ./cmd/dsverif",
 "hooks":{"guard":"verif","enable":"go build -tags verif ./cmd/dsverif in /verif (go.mod: replace github.com/sealdice/dicescript => /repo)","baseline_off_cmd":"cd /repo && GOFLAGS=-mod=mod GOPROXY=off GOSUMDB=off GOTOOLCHAIN=local go test -vet=off -count=1 ./...","source_commits":hook_commits,"add_only":True},
 "engines":[{"name":"dsverif","path":"/verif/cmd/dsverif","serves_properties":sorted(BUILT),"kind_free_text":"parent/child runtime-monitoring harness: generated workloads executed in child processes against the real library built from /repo's working tree with -tags verif (and -race where needed); monitors on hook events, recorded histories and reference/metamorphic oracles"}],
 "checks":[],
 "notes":"All checks: exit 0 held (KNOWN-FINDING lines possible), 1 new violation (VIOLATION line + replay file), 2 inconclusive/vacuous/broken. VERIF_SEED selects the case list.",
 "not_applicable":[]
}
for p in props:
    i=p['id']
    if i in BUILT:
        lvl,note,tech=T[i]
        m['checks'].append({
          "property_id":i,
          "quick_cmd":f"./check {i} quick",
          "thorough_cmd":f"./check {i} thorough",
          "evidence_file":f"/verif/evidence/{i}.json",
          "replay_cmd_template":"./check --replay {path}",
          "engine":"dsverif",
          "level_claimed":{"category":"exploration","text":lvl,"design_ref":f"DESIGN.md §4 {i}"},
          "level_note":note,
          "technique":tech})
    else:
        m['not_applicable'].append({"property_id":i,"reason":"check designed (DESIGN.md §4) but not built yet in this round"})
json.dump(m,open(ROOT+'/MANIFEST.json','w'),indent=1,ensure_ascii=False)
print("checks:",[c['property_id'] for c in m['checks']])
