#!/bin/bash
# re-runs every seeded change against the checks listed in its meta.json (detected_by), on a scratch
# worktree (WT, default /tmp/mut/mwt, created at /repo HEAD if missing) with a scratch copy of the
# harness (HARNESS, default /tmp/verif3) — /repo itself is never modified. Prints a table.
cd /verif
WT=${WT:-/tmp/mut/mwt}; H=${HARNESS:-/tmp/verif3}
if [ ! -d $WT ]; then git -C /repo worktree add --detach $WT $(git -C /repo rev-parse HEAD) >/dev/null 2>&1; fi
git -C $WT checkout -q --detach $(git -C /repo rev-parse HEAD); git -C $WT checkout -q -- .
mkdir -p $H/evidence; rsync -a --exclude bin --exclude scratch --exclude replays --exclude .git --exclude evidence /verif/ $H/
sed -i "s|=> /repo|=> $WT|" $H/go.mod
for d in seeded/*/; do
  id=$(basename $d)
  checks=$(python3 -c "import json;print(' '.join(json.load(open('$d/meta.json'))['detected_by']))")
  echo "== $id ($checks)"
  WT=$WT HARNESS=$H tools/mutant_wt.sh $d/patch.diff $checks 2>&1 | grep -a "rc=\|APPLY"
done
