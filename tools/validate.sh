#!/bin/bash
# validates MANIFEST.json and all evidence files against the schemas
python3-vt - <<'PY'
import json,jsonschema,glob
jsonschema.validate(json.load(open('/verif/MANIFEST.json')),json.load(open('/root/.vp/MANIFEST.schema.json')));print('manifest valid')
s=json.load(open('/root/.vp/EVIDENCE.schema.json'))
for f in sorted(glob.glob('/verif/evidence/*.json')):
    jsonschema.validate(json.load(open(f)),s);print(f,'valid')
PY
